#!/venv/bin/python
"""Regenerates /verif/MANIFEST.json from the table below (so it is always schema-valid)."""
import json, os
V = os.path.dirname(os.path.dirname(os.path.abspath(__file__)))

# pid -> dict(text, note, technique, design) for claimed properties
CLAIMED = {
 "C16": dict(
   text="Machine-checked proof (Coq): theorem C16_history — for every class hierarchy, registry chain and every finite "
        "interleaving of register/resolve, the model of TypeRegistry returns the specification's answer (matching "
        "registration of highest priority, most recent among ties, base fallback, default). The model is tied to "
        "utype/utils/base.py by a differential correspondence suite driving a real TypeRegistry with generated histories.",
   note="Trusted: Coq kernel; the hand-written model Model/Registry.v (tied by execution on generated histories, not by "
        "translation); abstract hierarchy tables computed with issubclass/isinstance/hasattr; harness. No axioms.",
   technique="Coq proof by invariant over operation histories + model/implementation correspondence", design="§8 C16"),
}
CLAIMED["C02"] = dict(
   text="Machine-checked proof (Coq): every strict validator of class Constraints is translated from utype/parser/rule.py on "
        "each run (tools/py2coq.py -> coq/Gen/Constraints.v) and proved to accept exactly when its constraint holds in the "
        "documented sense and to return its input (18 theorems incl. gt/ge/lt/le, length family, const, enum, unique_items, "
        "multiple_of, max_digits, decimal_places, _parse_decimal); theorem C02_rule_exact lifts this to Rule.parse for every "
        "constraint list and every value of the source class; C02_isinstance_agrees covers __instancecheck__.",
   note="Trusted: Coq kernel; Base/PyPrim.v + PyOps.v (CPython operator semantics, validated by the gen-exec suite); the translator; "
        "the hand model Model/Parse.v of Rule.parse/__instancecheck__ (tied by the rule-exact suite); regex engine is a parameter. "
        "Legality of constraint sets (validate_constraints) is taken from the implementation, not modelled. No axioms.",
   technique="Coq proofs over validators regenerated from source by a translator + model/implementation correspondence", design="§8 C02")
CLAIMED["C03"] = dict(
   text="Machine-checked proof (Coq), partial: (1) for every lax validator (translated from source on each run) the output is a fixed "
        "point and, on exact domains, satisfies the strict form (13 theorems); the max_digits half is refuted by a proved witness "
        "(known finding). (2) Whole types: C03_reparse_returns_the_result / C03_reparse_call / C03_reparse_nested — for every type of "
        "the fragment `stable` (Spec/Stable.v: builtin classes, data classes, unions | and ^ of those, negations, constrained scalars "
        "and Optional-style rules over a stable origin, list / set / frozenset / variable-length tuple of stable element types, "
        "fixed-length Tuple[T1..Tn] and Dict[K, V] of stable types, checking constraints, `contains` on containers), every input, every options record with the 'throw' policies and every nesting level, parsing the "
        "result again returns exactly that result and leaves the context untouched, with no assumption on the result (an earlier version had to assume away the bool-for-int leak of int([True]); it showed up as a "
        "C15 violation and was repaired in /repo: dd6794a); C03_results_are_typed derives the exact classes of "
        "results from the first parse (by induction on the knot of the parse calculus, three stages of unions and set rebuilding "
        "included). Outside the fragment (&, unions of constrained types, lax constraints inside "
        "types, exclude / preserve) idempotence is carried by the parse correspondence and the idempotence oracle, with six listed findings.",
   note="Trusted: as C02 and C01 (Model/Parse.v tied by the parse correspondence suites). The reparse-fragment suite evaluates "
        "in_fragment in Coq on every accepted generated case and requires the implementation's second parse to return the first result "
        "exactly (classes and contents) inside the fragment; no listed finding applies there. Partial: see text.",
   technique="Coq proofs over lax validators regenerated from source + Coq proof by induction on the parse calculus for re-parsing (stable fragment) + re-parse oracle and correspondence on the implementation", design="§8 C03")
CLAIMED["C18"] = dict(
   text="Machine-checked proof (Coq), partial: theorems C18_list_exact, C18_dict_exact, C18_optional_exact, C18_union_exact, C18_tuple_exact — for `class Node: v: int; "
        "link: List[Node]`, `link: Dict[str, Node]`, `link: Optional[Node] = None`, `link: Union[Node, int, None] = None` and `link: Tuple[Node, ...] = ()` with max_depth=d, EVERY input (trees of any size and "
        "branching with the deep branch at any index / under any key; chains of any length through the three-stage union) is accepted, "
        "and converted to the expected instances, exactly when its data-class nesting depth is <= d (induction over rose trees / chains "
        "on the executable model of RuntimeContext/Rule.parse/logical_parse/init_dataclass); C18_levels_add_up for any enclosing level. "
        "The five declarations are compared on every run with what the real classes reflect to (theorem-subjects suite). Other link "
        "kinds (Dict with float/Decimal/bool/Optional[str] keys, List[Optional]) and option sets are "
        "decided by the depth correspondence suite and the nesting oracle. The cost half is refuted on the implementation "
        "(exponential, known finding) and not proved; a linear-cost check runs for fully strict classes.",
   note="Trusted: Coq kernel; hand model Model/Parse.v + Ctx.v tied by the depth correspondence suite (0 mismatches required) and the "
        "theorem-subjects suite (reflected declaration = theorem's declaration, by conversion); harness generators. Partial: theorems "
        "cover the List / Dict[str] / Optional / Union-with-scalar-arms / variable-length Tuple families; cost bound is a known finding, measured with a counting leaf type.",
   technique="Coq proof by induction over input trees on the executable parse model + model/implementation correspondence", design="§8 C18")
CLAIMED["C01"] = dict(
   text="Machine-checked proof (Coq): theorem C01_conform — for the whole parse calculus (builtin converters, Rule.parse with the "
        "three args parsers / validators / contains, the four logical combinators with staged unions, nested data-class "
        "construction), every options record that does not waive the guarantee, every declared type, input and error state: a "
        "returned value conforms (source class, elements/keys/values/tuple positions recursively, strict checking constraints). "
        "Proved by one lemma per construct and induction on the fuel; leaf lemma C01_builtin_targets for all converters. "
        "Declarations with value-transforming constraints are outside the statement (refutation proved, known finding).",
   note="Trusted: Coq kernel; Base/ primitives; the translator for validators; the hand model Model/Parse.v, Conv.v tied by the "
        "parse correspondence suite (5000+ cases per run, 0 mismatches required) and an independent conformance oracle on the "
        "implementation's outputs. Field-level content of data classes and function parameters are handled under C05/C08.",
   technique="Coq proof by induction over the parse calculus + model/implementation correspondence", design="§8 C01")
CLAIMED["C04"] = dict(
   text="Machine-checked proof (Coq), partial: C04_types_raise_parse_errors_only — for every constrained/logical type inside wf_ty "
        "(Spec/Wf.v) and every input, an exception leaving the parse is a ParseError (every nested failure is wrapped or collected by "
        "the construct around it: proved construct by construct for Rule.parse, the args parsers, validators, contains and the four "
        "combinators); C04_dataclass_raises_parse_errors_only for ANY data-class declaration on string-keyed input; the timestamp "
        "normalisation loop terminates for every finite timestamp. Outside wf_ty a refutation is proved (known finding). "
        "Five genuine defects found while building this proof were repaired (fix: commits).",
   note="Trusted: as C01. Partial: termination in general, resource exhaustion (huge exponents: known finding), C-level recursion "
        "limits and the converters outside the model (dates, uuid, enum, complex) are judged by the hostile suite under a CPU "
        "watchdog, not proved; 'preserve' item/key policies are outside the theorem (raw elements may be unhashable).",
   technique="Coq proof per construct of the parse calculus + hostile-input oracle and correspondence on the implementation", design="§8 C04")
CLAIMED["C10"] = dict(
   text="Machine-checked proof (Coq): theorem C10_same_verdict_and_value — for every declared type of the parse calculus, every input "
        "and every pair of option records differing at most in collect_errors/max_errors, the fail-fast parse and the collecting "
        "parse return the same value or both raise. Proved by a simulation (Proofs/Sim.v: lockstep while no error is recorded, "
        "both poisoned afterwards) established construct by construct and tied by induction on the fuel, together with the "
        "invariants 'errors are never forgotten' and 'a successful parse leaves the recorded errors unchanged'. C10_cap: max_errors "
        "caps what is recorded. Reported items for data classes are decided by the collect suite.",
   note="Trusted: as C01. Unmodelled/OutOfFuel outcomes on either side void the comparison (excluded in the statement). The field loops "
        "of data classes are simulated only up to parse_value; exact reported items are checked by execution (generator knows which "
        "fields it invalidated).",
   technique="Coq simulation proof between the fail-fast and collecting runs of the parse calculus + correspondence and direct oracle", design="§8 C10")
CLAIMED["C09"] = dict(
   text="Machine-checked proof (Coq): for every recursive knot, options, nesting level and input — union: exact-class values "
        "returned unchanged, a stage succeeds iff an argument accepts and returns that argument's output, results conform (C01 "
        "instance); exclusive-or: accepted exactly when one and only one argument accepts the GIVEN input (C09_xor_exactly_one) and "
        "verdict and value are invariant under every permutation of the arguments (C09_xor_order_independent); negation: accepts "
        "exactly when the argument rejects and returns the input; conjunction: the chain of sequential applications. "
        "Construction algebra (Any absorption, singleton, no duplicates, same-kind flattening, double negation) on Model/Combine.v.",
   note="Trusted: as C01; Model/Combine.v is a hand model of LogicalType.combine/combine_by/__invert__ tied by structural comparison "
        "of constructed types (combine suite); type identity is modelled by structural equality of the declaration trees. "
        "'decided' hypotheses exclude arguments whose verdict is outside the model (Unmodelled) or a DepthExceedError at entry.",
   technique="Coq proofs on the logical_parse model (loop invariants, permutation argument) + correspondence and per-argument oracle", design="§8 C09")
CLAIMED["C11"] = dict(
   text="Machine-checked proof (Coq): for sequences of any length (list, set, variable-length tuple) parsing under 'exclude' equals "
        "parsing under 'throw' the input with exactly the offending elements removed (C11_exclude_is_filter), 'preserve' returns the "
        "elements converted or put back unchanged position by position; mappings: under exclude/preserve for keys and values the "
        "result is exactly the fold of per-pair contributions (an offending key/value affects only its own pair); fields: a "
        "required field is never silently excluded, an optional one takes its default / stays absent, preserve keeps the input, "
        "a good value is unaffected by the policy.",
   note="Trusted: as C01. C11_exclude_is_filter assumes element conversions independent of the policy (element types without "
        "offending sub-elements); *args and typed `addition` are outside the model and covered only where the policies suite "
        "reaches them; fixed-length tuples have no exclude policy in utype.",
   technique="Coq proofs by induction over the element loops of the parse model + correspondence and per-element oracle", design="§8 C11")
CLAIMED["C12"] = dict(
   text="Machine-checked proof (Coq), partial: for every builtin target and every source value, what converts under no_data_loss "
        "converts identically without it (C12_no_data_loss_only_restricts) and what converts under no_explicit_cast converts without it "
        "to the same value / an equal Decimal (C12_no_explicit_cast_only_restricts); under no_data_loss a float/Decimal becomes an int "
        "only with its value preserved, only unambiguous booleans become bool, multi-element collections never collapse, a fixed-length "
        "tuple given extra items is rejected (C12_ndl_tuple_excess_rejected) and so is an unknown key under addition=False, which "
        "Options derives from no_data_loss (C12_unknown_key_rejected); under "
        "no_explicit_cast conversions stay inside the primitive group apart from Decimal<-str (C12_nec_same_group).",
   note="Trusted: as C01 (Model/Conv.v tied by the convert-grid correspondence suite). Partial: date/time/uuid/enum/complex "
        "targets and strict bytes decoding are judged by the flag oracle on the implementation, not proved; outside the model the oracle "
        "compares each flagged parse with the unflagged one (the statement's comparison), inside it the full flag lattice.",
   technique="Coq proofs by case analysis over the converter models + correspondence grid and flag-lattice oracle", design="§8 C12")
CLAIMED["C05"] = dict(
   text="Machine-checked proof (Coq): an executable per-field contract (Spec/FieldSpec.v: which keys feed a field, absence / default, "
        "no_input, alias conflicts, on_error policies, dependencies, addition policy, min/max_params) and the theorem that "
        "BaseParser.parse_data of the model, with either lookup strategy, succeeds exactly when the contract says so and then holds, key "
        "by key, what the contract prescribes (C05_parse_data_implements_contract), for every well-formed declaration, options, depth, "
        "recursive knot and input mapping of any size; plus the documented single rules as corollaries (accepted keys, missing fields, "
        "no_input, unknown keys, ignore_required / no_default / defer_default / force_default, no_output and attribute names).",
   note="Trusted: Coq kernel; Model/Parse.v data-class loops as a description of base.py / field.py / cls.py (tied by the fields "
        "correspondence suite: random declarations over every Field parameter and class Options, runtime Options, __from__ and __init__); "
        "decl.py reflection of parser objects. Hypotheses: wf_cdecl (evaluated in Coq on every reflected class; what generate_aliases / "
        "apply_fields enforce), ignore_alias_conflicts off, repeated values coherent (== is identity) - each evaluated per case and "
        "counted in the evidence. Not modelled: discriminator fields, typed additions, property fields, aliasing of default copies (C19).",
   technique="Coq proof by refinement of both parsing loops to a per-field contract (fold decomposition over a product state) + "
             "correspondence + contract evaluation on the reflected classes", design="§8 C05")
CLAIMED["C06"] = dict(
   text="Machine-checked proof (Coq): data_first_parse and field_first_parse of the model, each followed by the caller's raise_error in a "
        "fresh context, both succeed with the same mapping (key by key) or both fail, for every well-formed declaration, options with "
        "conflicts not ignored, depth, recursive knot and input mapping whose repeated values are coherent (C06_strategies_agree: both "
        "refine the contract of C05); and parse_data under option sets that differ only in data_first_search (C06_flag_invisible).",
   note="Trusted: as C05, with the fields suite run once per strategy on every class; the property itself is also run on the "
        "implementation (each class declared with both flag values, same input). Six genuine strategy differences found while proving "
        "were repaired in /repo (fix: commits 0754abf 511ff49 28b495c e770f02 af2ee76 8d9b076); two are open known findings "
        "(ignore_alias_conflicts winner, ==-equal but different representatives) and are exactly the situations the hypotheses "
        "exclude. Function parsers (excluded_keys, *args, **kwargs) are not modelled.",
   technique="Coq proof: both strategies refine one contract; differential oracle on the implementation; correspondence per strategy",
   design="§8 C06")
CLAIMED["C07"] = dict(
   text="Machine-checked proof (Coq): an instance model (mapping contents + attribute copies) with every public mutating operation of "
        "Schema (item / attribute assignment and deletion, pop, popitem, update and |=, setdefault, clear) and of DataClass (attribute "
        "assignment and deletion), and the theorem that after any finite sequence of operations with any arguments the invariant of the "
        "constructed instance still holds (C07_every_sequence_keeps_the_invariant, by induction over the sequence): a field's value is "
        "the constructed one or an output of the field's own parse, required fields stay, immutable fields keep their value, no_output "
        "fields never enter the mapping and the attribute view does not outlive the key; a single-key operation that raises changes "
        "nothing (C07_raising_operation_changes_nothing).",
   note="Trusted: Coq kernel; Model/Schema.v as a description of schema.py / cls.py make_setter/make_deleter (tied by the mutations "
        "suite: random declarations, constructed instances, 1-8 random operations, mapping and attribute read of every field compared "
        "after every step); hypotheses wf_inst / init_okb evaluated in Coq on every reflected class and constructed instance. Partial: "
        "@property fields and the recomputation of their dependants, runtime options different from the class options, typed additions "
        "and plain attribute assignment are not modelled; 'conforms to its declared type' is reduced to 'is an output of the field's "
        "parse' (C01 gives conformity of parse outputs; the preserve policy and unvalidated defaults are outside); aliasing between an "
        "instance and its copy is judged on the implementation only. Seven genuine defects found while building the model were repaired "
        "in /repo (fix: commits c6384dd 583a316 f838025 b25d005 6ccd373 f67341e e9c698a).",
   technique="Coq proof: invariant preserved by every operation (two kinds of local change), induction over operation sequences + "
             "stepwise correspondence on random operation sequences + invariant oracle on the implementation", design="§8 C07")
CLAIMED["C08"] = dict(
   text="Machine-checked proof (Coq), partial: a model of FunctionParser.parse_params and of Python's own argument binding; proved for "
        "every signature and call: each given positional argument lands at its own index, converted by its parameter's field and "
        "unchanged for an excluded parameter, nothing dropped or shifted (C08_positional_arguments_keep_their_index); the first "
        "unconvertible argument makes the parse signal an error and then the body does not run (C08_failing_argument_signals, "
        "C08_call_outcome); defaults of omitted positional-only parameters are only ever appended at the index of their own parameter "
        "(C08_positional_only_defaults_at_their_index); otherwise the body receives what Python binds from the parsed arguments, and "
        "that binding names every parameter exactly once in signature order (C08_binding_binds_each_parameter_once).",
   note="Trusted: Coq kernel; Model/Func.v as a description of func.py parse_params and of CPython's call binding (tied by the calls "
        "suite: decorated functions returning their locals, and by the python-binding suite: py_bind against CPython binding the "
        "undecorated twins). Partial: that the final binding equals Python's binding of the original call with each parameter "
        "converted, Param aliases, instance / class / static methods, return annotations, coroutines, generators and async generators "
        "(lazy and eager) are decided on the implementation by the signature-bind and results-and-generators oracle suites (CPython's "
        "binding of the undecorated twin as the oracle), not proved. Not modelled: typed **kwargs, Param dependencies (judged by the signature-bind oracle only), calls giving one "
        "parameter twice (Python rejects them), the instance-method guess for '@staticmethod over @utype.parse' with a bare first "
        "parameter. Excluded (underscore-prefixed) parameters given by keyword are dropped by design (tests/test_func.py) and are not "
        "generated. Two genuine defects repaired in /repo (fix: 43b9b80 and the positional-only default commit).",
   technique="Coq proofs over the model of parse_params and of Python's binding (pure mirror via the verdict framework) + call "
             "correspondence + CPython-binding oracle on the implementation", design="§8 C08")
CLAIMED["C14"] = dict(
   text="Machine-checked proof (Coq), partial: the integer-field arithmetic of the duration, UTC-offset and time-of-day encoders "
        "(encode.py) and decoders (transform.py) round-trips for every value of the domain: every timedelta including negative and "
        "microsecond ones (C14_duration_roundtrip; the written fields denote the absolute value and are canonical), every UTC offset of "
        "less than a day, positive or negative (C14_offset_roundtrip), and exactly the times of day with whole milliseconds "
        "(C14_time_ms_roundtrip / C14_time_finer_than_ms_is_lost).",
   note="Trusted: Coq kernel; Model/Temporal.v as a description of duration_iso_string / to_timedelta, isoformat offsets / %z, "
        "from_time (tied by the temporal suite at field level: the implementation's text is read with an independent regular "
        "expression). Partial: the text layouts, Decimal / float tokens (15 significant digits through float), UUID, Enum, bytes and "
        "the round trip of whole instances (containers, nested classes, standard JSON) are decided by the round-trip suite on the "
        "implementation, not proved. One genuine defect repaired in /repo (negative UTC offsets did not parse back: d82c1fe); one open "
        "known finding (DataClass instances are not encodable at all).",
   technique="Coq proofs (lia with Euclidean division) over the field arithmetic + field-level correspondence + round-trip oracle "
             "on the implementation", design="§8 C14")
CLAIMED["C13"] = dict(
   text="Machine-checked proof (Coq), partial (object structure): a model of what JsonSchemaGenerator lists for a data class, and "
        "theorems tying it to the field contract of C05: the listed input properties are exactly the fields that take input in the "
        "class's mode and each listed name is an accepted key of its own field; `required` lists exactly the fields whose absence is "
        "an error (missing required => the parse fails, missing unrequired => no absence error); additionalProperties is exactly the "
        "addition policy (false: unknown key rejected, true: kept, absent: dropped); in the output view every required property is "
        "present in what the parser produces and a Schema instance holds a field's key only if the output schema lists it.",
   note="Trusted: Coq kernel; Model/SchemaGen.v as a description of generate_for_dataclass (tied by the schema-structure suite on "
        "random classes, both views). Partial: that every generated document (classes, constrained scalars, containers, unions) is "
        "JSON and a valid draft 2020-12 schema and that every produced value validates against it is decided with the jsonschema "
        "reference implementation (python3-vt subprocess) by the schema-validity suite; the input schema is also probed against the "
        "parser on the implementation (input-schema-probes). $defs / $ref, function schemas, formats are not covered. Classes with the "
        "'preserve' policy or forced defaults are outside the value-validation domain. Four generator defects and one is_no_input "
        "defect repaired in /repo (fix: 7c898a4 5574393 b88e74a 36ce38b and the is_no_input commit).",
   technique="Coq proofs (corollaries of the C05 contract) over the generator model + structure correspondence + jsonschema "
             "reference validator and parser probes on the implementation", design="§8 C13")
CLAIMED["C15"] = dict(
   text="Machine-checked proof (Coq), partial: the two helpers of JsonSchemaParser that decide whether a type can be built at all. For "
        "every combination of minimum / exclusiveMinimum / maximum / exclusiveMaximum the bounds handed to the Rule accept exactly the "
        "same numbers and are at most one per side (C15_bounds_normalisation_is_exact, C15_bounds_one_per_side); for every list of "
        "property names (non-identifiers, keywords, names of mapping methods, underscore prefixes, names colliding after sanitising) the "
        "attribute names of the built class are pairwise distinct and none shadows a reserved name "
        "(C15_attribute_names_distinct_and_unreserved, C15_renamed_attribute_is_fresh).",
   note="Trusted: Coq kernel; Model/SchemaParse.v as a description of get_constraints / get_attname / the renaming of parse_object "
        "(tied by the schema-helpers suite). Partial: that building succeeds for every schema of the fragment and that every value the "
        "built type returns under strict options validates against the source schema is decided by the schema-oracle suite with the "
        "jsonschema reference implementation (random schemas with and without explicit type, nested, odd property names). Seven "
        "defects repaired in /repo (const without type, typeless constraints, bounds together, attribute-name collisions x2, "
        "additions shadowing methods, to_datetime AttributeError); four open known findings (oneOf vs the exact-class shortcut of ^, "
        "allOf over different kinds, bool/int equality in enum / const, minProperties counted before unknown keys are dropped), "
        "each matched by schema feature and validator message. $ref / $defs not covered.",
   technique="Coq proofs over the bound-normalisation and attribute-naming models + helper correspondence + jsonschema reference "
             "validator on values returned by the built types", design="§8 C15")
CLAIMED["C17"] = dict(
   text="Machine-checked proof (Coq), partial: forward references as a state machine over a heap of ForwardRef cells shared between "
        "declarations (Model/Forward.v: the table of pending references with its keys, registration at declaration time, lazy resolution "
        "at first parse with the reset of function-local references). For every declaration (any fields, any nesting of generic / "
        "Optional / Union applications, direct classes and string references mixed, one text used any number of times, cells shared with "
        "other declarations), whatever is bound at declaration time and whatever happened to the heap in between: no reference is lost at "
        "registration (C17_registration_complete, C17_key_never_shadows_another_reference); the first parse made once every name is bound "
        "leaves each field denoting exactly the directly written type (C17_declared_then_parsed, C17_first_parse_resolves); a first use "
        "made too early raises and the next one still gives the direct types (C17_early_use_then_parsed); two function-local "
        "declarations sharing ForwardRef objects are each resolved under their own globals (C17_local_scopes_isolated).",
   note="Trusted: Coq kernel; Model/Forward.v as a description of register_forward_ref / resolve_forward_type / "
        "LogicalType.resolve_forward_refs / Rule.resolve_forward_refs / BaseParser.resolve_forward_refs / ParserField.generate and of "
        "typing.ForwardRef._evaluate (tied by the forward-state suite: live parsers after every declaration and every "
        "resolve_forward_refs, field types, pending tables and evaluated flags of the ForwardRef objects through id()). Partial: that "
        "parsing depends on a field type only through what it denotes, and the behaviour on inputs, are decided on the implementation: "
        "every spelled system against the same system unrolled with direct references only. Five defects repaired in /repo "
        "(duplicate key, Optional / Union in local classes, local function return types, generator yield types). Not covered: "
        "references to other classes of the same function-local scope that are never bound at module level (Python itself cannot "
        "resolve them), Options(addition='Name'), forward references in property setters.",
   technique="Coq proofs over a heap / pending-table model of forward-reference registration and resolution + live-state correspondence "
             "through id() + spelled-vs-unrolled-direct differential oracle on the implementation", design="§8 C17")
CLAIMED["C19"] = dict(
   text="Machine-checked proof (Coq), partial: object identity is modelled as a heap of cells (Model/Heap.v) and "
        "utils.functional.copy_value, the copy get_default applies to every default, as a heap-threading function. For every object graph "
        "(any nesting of lists / sets / frozensets / tuples / dicts over shared atoms and opaque objects, any sharing, any size) the copy "
        "denotes the same value (C19_copy_same_value), leaves every existing object as it was (C19_copy_leaves_heap), shares no "
        "container with anything that existed before (C19_copy_shares_no_container), and so any in-place write into a container reachable "
        "through one instance is invisible through the default and through another instance (C19_instances_independent).",
   note="Trusted: Coq kernel; Model/Heap.v as a description of copy_value (tied by the copy-value suite: object graphs with sharing, "
        "the heap after the real call read back through id()). Partial: identity is not part of the value calculus of the other models, "
        "so that every default of every spelling really goes through this copy, that parsing leaves the caller's inputs as they were and "
        "that no call depends on earlier calls is decided on the implementation: the default-aliasing suite (three results from defaults, "
        "raw writes into every container, identities and values of results / default objects / shared factory objects) and the history "
        "suite (4-8 mixed valid / invalid calls, results written into between calls, each outcome compared with the same call made first "
        "in a freshly forked process, each input compared with its deep snapshot; the outer container of a field / parameter declared "
        "with element types must not be one of the caller's own objects). A result may alias its *input* where a converter returns its "
        "argument (bare list / dict / Any fields and elements): the property does not forbid that and the suites do not flag it.",
   technique="Coq proofs over a heap model of copy_value + copy-value correspondence through id() + aliasing / snapshot / fresh-process "
             "history oracles on the implementation", design="§8 C19")
CLAIMED["C20"] = dict(
   text="Machine-checked proof (Coq), partial: the first-parse protocol of BaseParser.resolve_forward_refs as a transition system "
        "(Model/Concur.v: one step per source line that reads or writes the shared parser state: lock, resolving flag, table of pending "
        "references, evaluated flags of the ForwardRef cells, field types; threads interleave at every step). For any number of threads, "
        "any table and fields, module-level or function-local declaration, and every schedule, with no bound on preemptions: no thread "
        "fails (no KeyError on the table, no unevaluated reference at conversion time) and every finished thread used fully resolved "
        "field types (C20_no_thread_fails); at most one thread resolves at a time (C20_one_resolver_at_a_time); no reachable state is a "
        "deadlock (C20_no_deadlock). Lookups in the shared converter registry (cache test, hit, scan, fill; Model/RegCache.v): for any "
        "threads, requested types and schedule every lookup returns what the scan of the registrations gives and the read of a hit never "
        "fails (C20_registry_lookups_agree). The same code without the lock is refuted by one-preemption schedules "
        "(C20_unlocked_refuted, C20_unlocked_local_refuted): the defect repaired in /repo.",
   note="Trusted: Coq kernel; Model/Concur.v as a description of resolve_forward_refs / _resolve_forward_refs at line granularity, and "
        "CPython executing one such line without interference on the state it touches (GIL). Tie: the protocol-trace suite runs the real "
        "code with 2-3 threads under a deterministic line-level scheduler (harness/sched.py, sys.settrace; one worker runs at a time, "
        "schedule chosen by a seeded PRNG), reads the (thread, event) sequence off the executed lines and requires it to be the run of "
        "the model under the same schedule, with the same per-thread outcome. Partial: the converter registry (TypeRegistry.resolve cache "
        "fill), the parser cache (apply_for), nested / shared / inherited parsers and the conversions themselves are not in the model; "
        "they are explored on the implementation by bounded-preemption search (all single preemptions of the first 140 steps in the "
        "thorough tier, sampled pairs and triples) over 8 first-use scenarios: a search, not a proof. One defect repaired in /repo "
        "(unsynchronised first parse: KeyError / unevaluated reference). Registration of converters concurrent with parsing is not "
        "covered.",
   technique="Coq invariant proof over an interleaving model of the first-parse protocol (all schedules) + line-level trace replay of the "
             "real code under a deterministic scheduler + bounded-preemption exploration on the implementation", design="§8 C20")
NOT_YET = {}
for i in range(1, 21):
    pid = "C%02d" % i
    if pid not in CLAIMED:
        NOT_YET[pid] = "not yet built: model and proofs for this property are not finished in this revision (see DESIGN.md §0 status)"

man = {
 "version": 1,
 "setup_cmd": "./check --setup",
 "hooks": {"guard": "UTYPE_VERIF",
           "enable": "no source hooks: checks import /repo's working tree directly (PYTHONPATH=/repo); UTYPE_VERIF=1 is set but nothing in utype reads it",
           "baseline_off_cmd": "cd /repo && /venv/bin/python -m pytest -ra -q -p no:cacheprovider --timeout=900 --continue-on-collection-errors",
           "source_commits": [], "add_only": True},
 "engines": [{"name": "coq-proof+correspondence", "path": "/verif/check",
              "serves_properties": sorted(CLAIMED),
              "kind_free_text": "Coq 8.16.1 development under /verif/coq (Base, Gen (translated from /repo on every run), Model, Spec, Proofs, Props/Cxx.v) + differential correspondence harness under /verif/harness"}],
 "checks": [],
 "notes": "See DESIGN.md. Every check (1) regenerates coq/Gen from /repo's working tree and rebuilds Props/Cxx.vo with a full make, (2) audits Print Assumptions and forbidden tokens, (3) runs the correspondence suites model<->implementation on /repo, (4) replays known findings (known_findings.json).",
 "not_applicable": [{"property_id": k, "reason": v} for k, v in sorted(NOT_YET.items())],
}
for pid in sorted(CLAIMED):
    c = CLAIMED[pid]
    man["checks"].append({
        "property_id": pid,
        "quick_cmd": "./check %s --tier quick" % pid,
        "thorough_cmd": "./check %s --tier thorough" % pid,
        "evidence_file": "/verif/evidence/%s.json" % pid,
        "replay_cmd_template": "./check %s --replay {path}" % pid,
        "engine": "coq-proof+correspondence",
        "level_claimed": {"category": "proof", "text": c["text"], "design_ref": c["design"]},
        "level_note": c["note"],
        "technique": c["technique"],
    })
json.dump(man, open(os.path.join(V, "MANIFEST.json"), "w"), indent=1)
print("claimed:", sorted(CLAIMED), "unclaimed:", len(NOT_YET))
