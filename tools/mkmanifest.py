#!/venv/bin/python
"""Regenerates /verif/MANIFEST.json from the table below (so it is always schema-valid)."""
import json, os
V = os.path.dirname(os.path.dirname(os.path.abspath(__file__)))

# pid -> dict(text, note, technique, design) for claimed properties
CLAIMED = {
 "C16": dict(
   text="Machine-checked proof (Coq): theorem C16_history — for every class hierarchy, registry chain and every finite "
        "interleaving of register/resolve, the model of TypeRegistry returns the specification's answer (matching "
        "registration of highest priority, most recent among ties, base fallback, default). The model is tied to "
        "utype/utils/base.py by a differential correspondence suite driving a real TypeRegistry with generated histories.",
   note="Trusted: Coq kernel; the hand-written model Model/Registry.v (tied by execution on generated histories, not by "
        "translation); abstract hierarchy tables computed with issubclass/isinstance/hasattr; harness. No axioms.",
   technique="Coq proof by invariant over operation histories + model/implementation correspondence", design="§8 C16"),
}
NOT_YET = {}
for i in range(1, 21):
    pid = "C%02d" % i
    if pid not in CLAIMED:
        NOT_YET[pid] = "not yet built: model and proofs for this property are not finished in this revision (see DESIGN.md §0 status)"

man = {
 "version": 1,
 "setup_cmd": "./check --setup",
 "hooks": {"guard": "UTYPE_VERIF",
           "enable": "no source hooks: checks import /repo's working tree directly (PYTHONPATH=/repo); UTYPE_VERIF=1 is set but nothing in utype reads it",
           "baseline_off_cmd": "cd /repo && /venv/bin/python -m pytest -ra -q -p no:cacheprovider --timeout=900 --continue-on-collection-errors",
           "source_commits": [], "add_only": True},
 "engines": [{"name": "coq-proof+correspondence", "path": "/verif/check",
              "serves_properties": sorted(CLAIMED),
              "kind_free_text": "Coq 8.16.1 development under /verif/coq (Base, Gen (translated from /repo on every run), Model, Spec, Proofs, Props/Cxx.v) + differential correspondence harness under /verif/harness"}],
 "checks": [],
 "notes": "See DESIGN.md. Every check (1) regenerates coq/Gen from /repo's working tree and rebuilds Props/Cxx.vo with a full make, (2) audits Print Assumptions and forbidden tokens, (3) runs the correspondence suites model<->implementation on /repo, (4) replays known findings (known_findings.json).",
 "not_applicable": [{"property_id": k, "reason": v} for k, v in sorted(NOT_YET.items())],
}
for pid in sorted(CLAIMED):
    c = CLAIMED[pid]
    man["checks"].append({
        "property_id": pid,
        "quick_cmd": "./check %s --tier quick" % pid,
        "thorough_cmd": "./check %s --tier thorough" % pid,
        "evidence_file": "/verif/evidence/%s.json" % pid,
        "replay_cmd_template": "./check %s --replay {path}" % pid,
        "engine": "coq-proof+correspondence",
        "level_claimed": {"category": "proof", "text": c["text"], "design_ref": c["design"]},
        "level_note": c["note"],
        "technique": c["technique"],
    })
json.dump(man, open(os.path.join(V, "MANIFEST.json"), "w"), indent=1)
print("claimed:", sorted(CLAIMED), "unclaimed:", len(NOT_YET))
