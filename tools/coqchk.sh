#!/bin/bash
# independent re-check of every compiled Props file and everything it depends on; prints the axioms they rely on (none expected)
cd "$(dirname "$0")/../coq"
mods=$(ls Props/*.v | sed 's#Props/\(.*\)\.v#UV.Props.\1#' | tr '\n' ' ')
timeout 3000 coqchk -silent -o -Q . UV $mods 2>&1 | tail -14
