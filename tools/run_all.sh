#!/bin/bash
# runs every claimed check (quick) for the given seeds; prints one line per run
cd "$(dirname "$0")/.."
ids=$(python3 -c "import json; print(' '.join(c['property_id'] for c in json.load(open('MANIFEST.json'))['checks']))")
for seed in "$@"; do
  for id in $ids; do
    VERIF_SEED=$seed ./check $id --tier quick 2>&1 | grep -v "^KNOWN-FINDING\|conda" | tail -2 | tr '\n' ' '; echo
  done
done
