#!/venv/bin/python
"""debug helper: data-class case (python literal dict(src=..., data=..., ropts=None) per line on stdin): impl vs model"""
import sys, os, re
sys.path.insert(0, "/verif")
from decimal import Decimal
from harness import core, decl, dcsuite, dyn, parsesuite
import warnings; warnings.simplefilter("ignore")
import utype
for line in sys.stdin:
    line = line.strip()
    if not line: continue
    c = eval(line, {"Decimal": Decimal})
    name = re.search(r"class (\w+)\(", c["src"]).group(1)
    dyn.declare(c["src"])
    case = dict(cls=name, ropts=c.get("ropts"), data=c["data"])
    o = dcsuite.run_impl(case)
    world = decl.World()
    world.encoder = lambda: dcsuite.InstEncoder(classes=dict(world.classes), objects=world.objects)
    cid = world.cid(dyn.get(name))
    ro = "None" if case["ropts"] is None else "(Some %s)" % decl.reflect_options(world, utype.Options(**case["ropts"]))
    enc = world.encoder()
    txt = "(%d%%nat, %s, %s, %s)" % (cid, ro, enc.val(case["data"]), core.coq_obs(enc, o))
    body = "Definition RE := (re_std []).\n%s\nDefinition DD : decls := %s.\nEval vm_compute in (run_case DD %s).\n" % (
        dcsuite.PRELUDE % 60, world.decls_term(), txt)
    rc, out = core.coq_eval("dbgdc_%d" % os.getpid(), ["Parse"], body)
    print("IMPL :", o[0], (dict(o[1]) if o[0] == "ok" and isinstance(o[1], dict) else (o[1].__dict__ if o[0] == "ok" else o[1:])))
    print("MODEL:", out.strip()[-700:])
