#!/venv/bin/python
"""tools/seedregress.py [ids...]: re-run every seeded change (or the given ones) against the check of its property (and the
extra checks its meta names), seed 1, and print one line each.  /repo is modified while this runs."""
import sys, os, json, glob, re, subprocess
ids = sys.argv[1:] or sorted(os.path.basename(d) for d in glob.glob("/verif/seeded/C*"))
EXTRA = {"C08-7": ["C19"], "C12-6": ["C03"], "C05-2": ["C07"], "C10-2": ["C06"]}
miss = []
for sid in ids:
    pid = sid.split("-")[0]
    checks = [pid] + EXTRA.get(sid, [])
    chk = subprocess.run("git -C /repo apply --check /verif/seeded/%s/patch.diff" % sid, shell=True, capture_output=True, text=True)
    if chk.returncode != 0:
        print("%s STALE-PATCH (no longer applies: %s)" % (sid, chk.stderr.strip().splitlines()[0][:80])); sys.stdout.flush()
        continue
    r = subprocess.run(["/venv/bin/python", "/verif/tools/seedtest.py", sid] + checks + ["--seeds", "1"], capture_output=True, text=True)
    lines = [l for l in (r.stdout + r.stderr).splitlines() if "seed=" in l]
    caught = any("FAIL" in l for l in lines)
    nof = all("no-failing-input-found" in l for l in lines if "FAIL" in l) if caught else False
    print("%s %s%s" % (sid, "caught" if caught else "MISSED", " (no-failing-input-found)" if nof else "")); sys.stdout.flush()
    if not caught:
        miss.append(sid)
print("missed:", miss)
