"""C14 — JSON encoding round-trips through the parser."""
import random, json, re, warnings, uuid, enum
from datetime import date, datetime, time, timedelta, timezone
from decimal import Decimal
from . import core, dyn, findings

PID = "C14"


class Color(enum.Enum):
    R = 1
    G = "g"


class Turn(enum.Enum):
    # each member's value is the name of another member: the encoder writes the value, which must come back as this member
    up = "down"
    down = "left"
    left = "up"


class Level(enum.IntEnum):
    low = 1
    high = 2


dyn.Color = Color
dyn.Turn = Turn
dyn.Level = Level
dyn.uuid = uuid
dyn.date, dyn.datetime, dyn.time, dyn.timedelta = date, datetime, time, timedelta


def gens(rng):
    def r_dec():
        digits = rng.randint(1, 15)
        n = rng.randint(0, 10 ** digits - 1)
        # large positive exponents included (beyond the float range too); tiny ones are the listed finding C14-decimal-underflow
        ex = rng.randint(-digits, 3) if rng.random() < 0.85 else rng.choice([20, 100, 300, 308, 309, 400])
        return Decimal((rng.choice([0, 1]), tuple(int(c) for c in str(n)), ex))

    def r_tz():
        k = rng.random()
        if k < 0.3:
            return None
        if k < 0.45:
            return timezone.utc
        if k < 0.55:
            # offsets that are not a whole number of minutes (local mean time zones): isoformat writes +HH:MM:SS[.ffffff]
            return timezone(rng.choice([timedelta(minutes=19, seconds=32), -timedelta(minutes=25, seconds=21), timedelta(seconds=1),
                                        -timedelta(hours=3, seconds=7), timedelta(hours=2, microseconds=250000)]))
        return timezone(timedelta(minutes=rng.choice([-720, -330, -90, -1, 1, 30, 60, 345, 840, rng.randint(-1439, 1439)])))
    return {
        "int": lambda: rng.choice([0, 1, -1, 2 ** 31, -2 ** 40, 10 ** 15, 9007199254740991, rng.randint(-10 ** 9, 10 ** 9)]),
        # infinities are in the domain ("float except NaN"); they are written as the token Infinity: listed finding C14-float-infinity
        "float": lambda: rng.choice([0.0, -0.0, 1.5, -2.25, 1e-7, 1e21, 3.141592653589793, float(2 ** 53), 1e300, 5e-324, rng.uniform(-1e6, 1e6)]
                                    + ([float("inf"), float("-inf")] if rng.random() < 0.3 else [])),
        "str": lambda: rng.choice(["", "a", "h\u00e9llo", "\u4e2d\u6587", 'with "quote"', "line\nbreak", "\\back", "\u2028", "tab\t"]),
        "bool": lambda: rng.choice([True, False]),
        "bytes": lambda: rng.choice([b"", b"abc", "\u00e9".encode(), b'{"a":1}']),
        "Decimal": r_dec,
        "date": lambda: date(rng.randint(1, 9999), rng.randint(1, 12), rng.randint(1, 28)),
        "datetime": lambda: datetime(rng.randint(1970, 2200), rng.randint(1, 12), rng.randint(1, 28), rng.randint(0, 23), rng.randint(0, 59),
                                     rng.randint(0, 59), rng.choice([0, 0, 1, 999, 1000, 123456, 999999]), tzinfo=r_tz()),
        "time": lambda: time(rng.randint(0, 23), rng.randint(0, 59), rng.randint(0, 59), rng.choice([0, 0, 1000, 123000, 999000])),
        "timedelta": lambda: timedelta(days=rng.choice([0, 0, 1, -1, 400, -3, 99999]), seconds=rng.randint(0, 86399),
                                       microseconds=rng.choice([0, 0, 1, 500000, 999999])),
        "uuid.UUID": lambda: uuid.UUID(int=rng.getrandbits(128)),
        "Color": lambda: rng.choice(list(Color)),
        "Turn": lambda: rng.choice(list(Turn)),
        "Level": lambda: rng.choice(list(Level)),
    }


WRAP = {None: "%s", "List": "List[%s]", "Optional": "Optional[%s]", "Dict": "Dict[str, %s]", "Set": "Set[%s]", "Tuple": "Tuple[%s, ...]"}


def roundtrip_oracle(i_seed):
    """one random Schema (optionally with a nested Schema) over the JSON-faithful field types, a few instances in the domain:
    encode with the library's JSONEncoder, the text must be standard JSON, parsing it with the same class must give an equal
    instance (equal values of the same types)"""
    from utype.utils.encode import JSONEncoder
    warnings.simplefilter("ignore")
    rng = random.Random(i_seed)
    G = gens(rng)
    name = "Rt%d" % i_seed
    fields = []
    for i in range(rng.randint(1, 4)):
        t = rng.choice(list(G))
        w = rng.choice([None, None, None, "List", "Optional", "Dict", "Set", "Tuple"])
        if w == "Set" and t == "float":
            w = None
        fields.append(("f%d" % i, t, w))
    nested = rng.random() < 0.3
    src = ""
    if nested:
        src += "class %sIn(Schema):\n    x: %s\n    y: %s = None\n" % (name, rng.choice(["int", "str", "datetime"]), "Optional[timedelta]")
    src += "class %s(Schema):\n" % name + "".join("    %s: %s\n" % (nm, WRAP[w] % t) for nm, t, w in fields)
    if nested:
        src += "    inner: %sIn\n    inners: List[%sIn] = Field(default_factory=list)\n" % (name, name)
    try:
        dyn.declare(src)
    except Exception as e:
        return None
    K = dyn.get(name)
    for _ in range(5):
        data = {}
        for nm, t, w in fields:
            g = G[t]
            if w is None: v = g()
            elif w == "List": v = [g() for _ in range(rng.randint(0, 3))]
            elif w == "Optional": v = rng.choice([None, g()])
            elif w == "Dict": v = {rng.choice(["k", "x y", ""]): g() for _ in range(rng.randint(0, 2))}
            elif w == "Set":
                try:
                    v = {g() for _ in range(rng.randint(0, 3))}
                except TypeError:
                    v = set()
            else: v = tuple(g() for _ in range(rng.randint(0, 3)))
            data[nm] = v
        if nested:
            def inner():
                x = {"int": 5, "str": "s", "datetime": G["datetime"]()}
                return dict(x=rng.choice([3, "t", G["datetime"]()]), y=rng.choice([None, G["timedelta"]()]))
            data["inner"] = inner()
            data["inners"] = [inner() for _ in range(rng.randint(0, 2))]
        try:
            inst = K(**data)
        except Exception:
            continue
        try:
            txt = json.dumps(inst, cls=JSONEncoder)
        except Exception as e:
            return "encoding failed (%s: %s) for %r of\n%s" % (type(e).__name__, e, dict(inst), src)
        def has_inf(x):
            if isinstance(x, float):
                return x in (float("inf"), float("-inf"))
            if isinstance(x, dict):
                return any(has_inf(y) for y in x.values())
            if isinstance(x, (list, tuple, set)):
                return any(has_inf(y) for y in x)
            return False
        try:
            def bad_const(c):
                raise ValueError(c)
            json.loads(txt, parse_constant=bad_const)
        except Exception as e:
            # exactly the listed finding: an infinite float of the instance written as [-]Infinity; the rest of the text must be
            # standard (checked with those tokens replaced) and the round trip is still required below
            if has_inf(dict(inst)) and str(e) in ("Infinity", "-Infinity"):
                try:
                    json.loads(re.sub(r"-?Infinity", "0", txt), parse_constant=bad_const)
                except Exception as e2:
                    return "not standard JSON (%s): %s" % (e2, txt[:300])
            else:
                return "not standard JSON (%s): %s" % (e, txt[:300])
        try:
            back = K.__from__(txt)
        except Exception as e:
            return "parsing the encoded text failed (%s: %s): %s of\n%s" % (type(e).__name__, str(e)[:200], txt[:400], src)

        def same(a, b):
            if type(a) is not type(b):
                return False
            if isinstance(a, dict):
                return set(a) == set(b) and all(same(a[k], b[k]) for k in a)
            if isinstance(a, (list, tuple)):
                return len(a) == len(b) and all(same(x, y) for x, y in zip(a, b))
            if isinstance(a, float):
                return a == b and str(a) == str(b)
            return a == b
        for k in inst:
            if k not in back or not same(dict.__getitem__(inst, k), dict.__getitem__(back, k)):
                return "field %r: %r came back as %r via %s\n%s" % (k, dict.__getitem__(inst, k), back.get(k), txt[:300], src)
    return None


# ---- correspondence of Model/Temporal.v with the encoders / decoders (field level) ----
DUR = re.compile(r"^(-?)P(\d+)DT(\d\d)H(\d\d)M(\d\d)(?:\.(\d{6}))?S$")


def temporal_suite(res, rng, n):
    from utype.utils.encode import from_duration, from_time, from_datetime
    from utype.utils.transform import type_transform
    lines = []
    fmt_bad = []
    for _ in range(n):
        td = timedelta(days=rng.choice([0, 0, 1, -1, 400, -3, rng.randint(-10 ** 6, 10 ** 6)]), seconds=rng.randint(0, 86399),
                       microseconds=rng.choice([0, 0, 1, 500000, 999999, rng.randint(0, 999999)]))
        s = from_duration(td)
        m = DUR.match(s)
        if not m:
            fmt_bad.append("duration %r written as %r: not the ISO 8601 layout [-]PnDTnnHnnMnn[.ffffff]S" % (td, s))
            continue
        neg, d, h, mi, sec, us = m.group(1) == "-", int(m.group(2)), int(m.group(3)), int(m.group(4)), int(m.group(5)), int(m.group(6) or 0)
        try:
            back = type_transform(s, timedelta)
        except Exception as e:
            fmt_bad.append("duration %r written as %r does not parse back: %s" % (td, s, e))
            continue
        lines.append("Dur (%d) (%d) (%d) %s (%d) (%d) (%d) (%d) (%d) (%d) (%d) (%d)" % (
            td.days, td.seconds, td.microseconds, "true" if neg else "false", d, h, mi, sec, us, back.days, back.seconds, back.microseconds))
    for _ in range(n // 2):
        mins = rng.choice([-720, -90, -1, 0, 1, 30, 345, rng.randint(-1439, 1439)])
        dt = datetime(2020, 5, 17, 5, 42, 17, rng.choice([0, 123456]), tzinfo=timezone(timedelta(minutes=mins)))
        s = from_datetime(dt)
        m = re.search(r"([+-])(\d\d):(\d\d)$", s)
        if not m:
            fmt_bad.append("offset of %r written as %r" % (dt, s))
            continue
        try:
            back = type_transform(s, datetime)
        except Exception as e:
            fmt_bad.append("datetime %r written as %r does not parse back: %s" % (dt, s, e))
            continue
        boff = back.utcoffset()
        lines.append("Off (%d) %s (%d) (%d) (%d)" % (mins, "true" if m.group(1) == "-" else "false", int(m.group(2)), int(m.group(3)),
                                                    int(boff.total_seconds() // 60) if boff is not None else 99999))
    for _ in range(n // 2):
        us = rng.choice([0, 1000, 123000, 999000, rng.randint(0, 999) * 1000])
        t = time(7, 17, 7, us)
        s = from_time(t)
        m = re.match(r"^\d\d:\d\d:\d\d(?:\.(\d{3}))?$", s)
        if not m:
            fmt_bad.append("time %r written as %r" % (t, s))
            continue
        try:
            back = type_transform(s, time)
        except Exception as e:
            fmt_bad.append("time %r written as %r does not parse back: %s" % (t, s, e))
            continue
        lines.append("Tim (%d) (%d) (%d)" % (us, int(m.group(1) or 0), back.microsecond))
    body = ("Inductive tcase :=\n| Dur (d s u : Z) (neg : bool) (fd fh fm fs fu : Z) (bd bs bu : Z)\n| Off (m : Z) (neg : bool) (h mm : Z) (back : Z)\n"
            "| Tim (us ms back : Z).\n"
            "Definition tok (c : tcase) : bool :=\n  match c with\n"
            "  | Dur d s u neg fd fh fm fs fu bd bs bu =>\n      let t := {| td_days := d; td_secs := s; td_us := u |} in let f := encode_td t in\n"
            "      td_wfb t && Bool.eqb (df_neg f) neg && (df_days f =? fd) && (df_hours f =? fh) && (df_minutes f =? fm) && (df_seconds f =? fs) && (df_us f =? fu)\n"
            "      && (let b := decode_td f in (td_days b =? bd) && (td_secs b =? bs) && (td_us b =? bu))\n"
            "  | Off m neg h mm back => let '(n', h', m') := encode_offset m in Bool.eqb n' neg && (h' =? h) && (m' =? mm) && (decode_offset (n', h', m') =? back)\n"
            "  | Tim us ms back => (encode_time_us us =? ms) && (decode_time_us ms =? back)\n  end.\n"
            "Definition cases : list tcase := [\n%s\n].\nGoal True. idtac \"MISMATCH\". exact I. Qed.\n"
            "Eval vm_compute in (bad_idx tok cases).\n" % ";\n".join(lines))
    rc, out = core.coq_eval("c14temporal_%d" % __import__("os").getpid(), ["Validators", "Temporal"], "Open Scope Z_scope.\n" + body)
    bad = core.parse_nat_list(out, "MISMATCH") if rc == 0 else None
    if bad is None:
        res.broken.append(dict(kind="correspondence", name="temporal (coqc failed)", detail=out[-1500:]))
        bad = []
    res.add_suite("temporal", len(lines), len(set(lines)), [lines[0] if lines else ""],
                  "timedelta (negative, microsecond, up to 10^6 days), UTC offsets -23:59..+23:59 and times of day with whole "
                  "milliseconds: the fields of the implementation's encoded text (read with an independent regular expression) and the "
                  "value its parser gives back are compared with encode_* / decode_* of Model/Temporal.v",
                  dict(mismatches=len(bad), text_layout_failures=len(fmt_bad)))
    if bad:
        res.broken.append(dict(kind="correspondence", name="temporal", detail="model and implementation differ on %d cases; first: %s" % (len(bad), lines[bad[0]])))
    for m in fmt_bad[:2]:
        res.violations.append(dict(case=repr(dict(kind="layout")), observed=m, what=m))


def finding_dataclass_not_encodable():
    from utype.utils.encode import JSONEncoder
    dyn.declare("class KfDc(DataClass):\n    a: int\n")
    try:
        json.dumps(dyn.get("KfDc")(a=1), cls=JSONEncoder)
        return False
    except TypeError:
        return True


def finding_float_infinity():
    from utype.utils.encode import JSONEncoder
    dyn.declare("class KfInf(Schema):\n    f: float\n")
    K = dyn.get("KfInf")
    return "Infinity" in json.dumps(K(f=float("inf")), cls=JSONEncoder)


def finding_decimal_underflow():
    from utype.utils.encode import JSONEncoder
    dyn.declare("class KfDe(Schema):\n    d: Decimal\n")
    K = dyn.get("KfDe")
    inst = K(d=Decimal("1E-400"))
    try:
        back = K.__from__(json.dumps(inst, cls=JSONEncoder))
        return back["d"] != inst["d"]
    except Exception:
        return True


def main(tier, seed):
    warnings.simplefilter("ignore")
    res = core.Result(PID, tier, seed)
    core.prove(res, PID)
    findings.replay_all(res, PID, {"C14-dataclass-not-encodable": finding_dataclass_not_encodable,
                                   "C14-decimal-underflow": finding_decimal_underflow,
                                   "C14-float-infinity": finding_float_infinity})
    rng = random.Random(seed * 151 + 14)
    if core.build(["Model/Temporal.vo", "Model/Validators.vo"])["ok"]:
        temporal_suite(res, rng, 1200 if tier == "quick" else 20000)
    n = 1500 if tier == "quick" else 25000
    outs = core.pool_map(roundtrip_oracle, [seed * 1000003 + i for i in range(n)])
    bad = [o for o in outs if isinstance(o, str)]
    res.add_suite("round-trip", n, n, ["seeded classes: 1-4 fields over int / float / str / bool / bytes / Decimal / date / datetime (naive, UTC, "
                                      "any offset) / time / timedelta / UUID / Enum, bare or in List / Optional / Dict / Set / Tuple, optional nested Schema"],
                  "random Schema classes over the JSON-faithful field types and random instances in the domain (negative and positive UTC "
                  "offsets, negative and microsecond durations, large and tiny numbers, empty containers, nested classes); the encoded "
                  "text must be standard JSON and parse back, with the same class, to an equal instance with values of the same types",
                  dict(failures=len(bad)))
    for o in bad[:3]:
        res.violations.append(dict(case=repr(dict(kind="roundtrip")), observed=o, what=o))
    return core.finish(res, "make -C coq Props/C14.vo && coqc (Print Assumptions audit)", "see suites", search=None,
                       level_note="partial: the theorems are about the integer-field arithmetic of the duration / UTC-offset / time-of-day "
                                  "encoders and decoders (Model/Temporal.v, tied by the temporal suite at field level); the text layouts, "
                                  "Decimal and float tokens and the round trip of whole instances are decided by the round-trip suite on "
                                  "the implementation; DataClass (non-mapping) instances are not encodable at all (open known finding)")


def replay(path):
    import json as _j
    d = _j.loads(open(path).read())
    print(_j.dumps(d, indent=1)[:3000])
    if "case" not in d:
        r = core.build(["Props/%s.vo" % PID])
        return 0 if r["ok"] else 1
    return 1
