"""Shared machinery of the /verif checks: build, Coq evaluation, value printing, worker pool,
evidence, known findings, verdicts.  Runs under /venv/bin/python (stdlib + the repo itself)."""
import os, sys, re, json, time, fcntl, subprocess, hashlib, signal, random, traceback
import multiprocessing as mp
import multiprocessing.pool
from decimal import Decimal
from pathlib import Path

VERIF = Path(__file__).resolve().parent.parent
COQ = VERIF / "coq"
REPO = Path(os.environ.get("UTYPE_REPO", "/repo"))
EVID = VERIF / "evidence"
REPLAY = EVID / "replay"
WORK = VERIF / ".work"
PY = "/venv/bin/python"
NCPU = min(16, os.cpu_count() or 4)

os.environ.setdefault("PYTHONHASHSEED", "0")
os.environ["UTYPE_VERIF"] = "1"
if str(REPO) not in sys.path:
    sys.path.insert(0, str(REPO))
if str(VERIF) not in sys.path:
    sys.path.insert(0, str(VERIF))

FORBIDDEN = re.compile(
    r"\b(Admitted|admit|Axiom|Axioms|Parameter|Parameters|Conjecture|Conjectures|"
    r"bypass_check|type-in-type|impredicative-set)\b|Unset\s+Guard|Unset\s+Positivity|"
    r"Unset\s+Universe\s+Checking|Admit\s+Obligations")


def sh(cmd, timeout=1800, cwd=None, env=None):
    t0 = time.time()
    try:
        p = subprocess.run(cmd, shell=isinstance(cmd, str), cwd=cwd, env=env, timeout=timeout,
                           stdout=subprocess.PIPE, stderr=subprocess.STDOUT, text=True)
        return p.returncode, p.stdout, time.time() - t0
    except subprocess.TimeoutExpired as e:
        out = e.stdout.decode() if isinstance(e.stdout, bytes) else (e.stdout or "")
        return 124, out + "\n[timeout]", time.time() - t0


# ------------------------------------------------------------------ build
class Lock:
    def __enter__(self):
        COQ.mkdir(exist_ok=True)
        self.f = open(COQ / ".lock", "w")
        fcntl.flock(self.f, fcntl.LOCK_EX)
        return self

    def __exit__(self, *a):
        fcntl.flock(self.f, fcntl.LOCK_UN)
        self.f.close()


def generate():
    """Tie 1: regenerate coq/Gen/*.v from /repo's working tree.  Returns (ok, message)."""
    tool = VERIF / "tools" / "py2coq.py"
    if not tool.exists():
        return True, "no translator"
    rc, out, _ = sh([PY, str(tool), "--repo", str(REPO), "--out", str(COQ / "Gen")], timeout=120)
    return rc == 0, out


def build(targets, timeout=1500):
    """gen + make the given .vo targets (full .vo build).  Returns dict(ok, log, failed)."""
    with Lock():
        gok, gout = generate()
        if not gok:
            return dict(ok=False, log=gout, failed="Gen (translation of the source failed)", stage="gen")
        mk = COQ / "Makefile"
        proj = COQ / "_CoqProject"
        if not mk.exists() or mk.stat().st_mtime < proj.stat().st_mtime:
            rc, out, _ = sh("coq_makefile -f _CoqProject -o Makefile", cwd=COQ, timeout=60)
            if rc != 0:
                return dict(ok=False, log=out, failed="coq_makefile", stage="make")
        rc, out, dt = sh(["make", "-j%d" % NCPU] + list(targets), cwd=COQ, timeout=timeout)
        if rc != 0:
            m = re.search(r'File "\./([^"]+)", line (\d+)', out)
            failed = "%s:%s" % (m.group(1), m.group(2)) if m else "make"
            return dict(ok=False, log=out[-6000:], failed=failed, stage="make")
        return dict(ok=True, log=out[-2000:], failed=None, stage="make", wall=dt)


def theorem_names(prop_file):
    txt = (COQ / prop_file).read_text()
    return re.findall(r"^\s*(?:Theorem|Lemma|Corollary)\s+([A-Za-z0-9_']+)", txt, re.M)


ALLOWED_AXIOMS = set()   # the development is axiom-free; anything printed is reported


def audit_assumptions(pid):
    """Compile a throw-away file that prints the assumptions of every theorem of Props/<pid>.v."""
    names = theorem_names("Props/%s.v" % pid)
    WORK.mkdir(exist_ok=True)
    d = WORK / ("audit_%s_%d" % (pid, os.getpid()))
    d.mkdir(exist_ok=True)
    f = d / ("Audit%s.v" % pid)
    body = "From UV Require Import %s.\n" % pid
    for n in names:
        body += 'Goal True. idtac "THEOREM %s". exact I. Qed.\nPrint Assumptions %s.\n' % (n, n)
    f.write_text(body)
    rc, out, _ = sh(["coqc", "-Q", str(COQ), "UV", str(f)], timeout=300, cwd=d)
    res = {}
    cur = None
    axioms = []
    for line in out.splitlines():
        m = re.match(r"THEOREM (\S+)", line)
        if m:
            cur = m.group(1)
            res[cur] = []
            continue
        if cur is None:
            continue
        if "Closed under the global context" in line:
            continue
        m = re.match(r"^([A-Za-z_][\w.']*)\s*:", line)
        if m and not line.startswith("Axioms"):
            res[cur].append(m.group(1))
            axioms.append(m.group(1))
    sh(["rm", "-rf", str(d)])
    return dict(ok=(rc == 0), theorems=names, assumptions=res, log=out[-2000:],
                unexpected=[a for a in axioms if a not in ALLOWED_AXIOMS])


def audit_forbidden():
    """forbidden declarations anywhere in the development; Variable/Hypothesis/Context only outside sections"""
    bad = []
    decl_re = re.compile(r"^\s*(Variable|Variables|Hypothesis|Hypotheses|Context)\b")
    for p in COQ.rglob("*.v"):
        if "Cases" in p.parts:
            continue
        txt = p.read_text()
        txt = re.sub(r"\(\*.*?\*\)", lambda m: "\n" * m.group(0).count("\n"), txt, flags=re.S)
        depth = 0
        for i, line in enumerate(txt.splitlines(), 1):
            if re.match(r"^\s*(Section|Module)\s+\w+", line) and ":=" not in line:
                depth += 1
            elif re.match(r"^\s*End\s+\w+\s*\.", line):
                depth = max(0, depth - 1)
            if FORBIDDEN.search(line):
                bad.append("%s:%d: %s" % (p.relative_to(COQ), i, line.strip()[:100]))
            elif decl_re.match(line) and depth == 0:
                bad.append("%s:%d: (outside a section) %s" % (p.relative_to(COQ), i, line.strip()[:100]))
    return bad


# ------------------------------------------------------------------ Coq evaluation of cases
def coq_eval(name, imports, body, timeout=600):
    """Write coq/Cases/<name>.v and compile it; returns (rc, stdout)."""
    d = COQ / "Cases"
    d.mkdir(exist_ok=True)
    f = d / (name + ".v")
    f.write_text("From UV Require Import %s.\nFrom Coq Require Import ZArith List String.\n"
                 "Import ListNotations.\nOpen Scope string_scope.\nOpen Scope list_scope.\nOpen Scope Z_scope.\n%s\n"
                 % (" ".join(imports), body))
    rc, out, dt = sh("ulimit -s unlimited 2>/dev/null; coqc -Q . UV Cases/%s.v" % name, cwd=COQ, timeout=timeout)
    # compiled outputs always go; the case file itself is kept only when it did not compile (for the replay / debugging)
    for ext in (".vo", ".glob", ".vok", ".vos") + ((".v",) if rc == 0 else ()):
        try:
            (d / (name + ext)).unlink()
        except OSError:
            pass
    try:
        (d / ("." + name + ".aux")).unlink()
    except OSError:
        pass
    return rc, out


def parse_nat_list(out, marker):
    """Find `MARKER` then `= [..] : list nat` in coqc output."""
    txt = out.replace("\n", " ")
    m = re.search(re.escape(marker) + r".*?=\s*(\[[^\]]*\]|nil)\s*:\s*list nat", txt)
    if not m:
        return None
    s = m.group(1)
    if s == "nil":
        return []
    return [int(x.replace("%nat", "")) for x in re.findall(r"\d+(?:%nat)?", s)]


def parse_nat(out, marker):
    txt = out.replace("\n", " ")
    m = re.search(re.escape(marker) + r".*?=\s*(\d+)(?:%nat)?\s*:\s*nat", txt)
    return int(m.group(1)) if m else None


def run_sharded(prefix, imports, shards, timeout=900):
    """shards: list of coq bodies; each must print `MISMATCH` list and `SKIPS` count.
    Returns list of (rc, out)."""
    with mp.pool.ThreadPool(NCPU) as tp:
        return tp.starmap(coq_eval, [("%s_%d_%d" % (prefix, os.getpid(), i), imports, b, timeout)
                                      for i, b in enumerate(shards)])


# ------------------------------------------------------------------ printing Python values as pyval
class Unencodable(Exception):
    pass


def coq_str(s):
    for ch in s:
        o = ord(ch)
        if o < 32 or o > 126:
            raise Unencodable("non printable-ASCII text")
    return '"' + s.replace('"', '""') + '"'


def coq_z(n):
    return "(%d)" % n


def coq_float(x):
    import math
    if math.isnan(x):
        return "FNan"
    if math.isinf(x):
        return "(FInf %s)" % ("true" if x < 0 else "false")
    if x == 0:
        if math.copysign(1.0, x) < 0:
            raise Unencodable("-0.0")
        return "(FFin 0 0)"
    n, d = x.as_integer_ratio()
    e = -(d.bit_length() - 1)
    while n % 2 == 0:
        n //= 2
        e += 1
    return "(FFin %s %s)" % (coq_z(n), coq_z(e))


def coq_dec(d):
    t = d.as_tuple()
    if t.exponent == 'n' or t.exponent == 'N':
        return "DNan"
    if t.exponent == 'F':
        return "(DInf %s)" % ("true" if t.sign else "false")
    c = int("".join(map(str, t.digits))) if t.digits else 0
    if len(t.digits) != len(str(c)):
        raise Unencodable("non-canonical decimal digits")
    return "(DFin %s %d%%N %s)" % ("true" if t.sign else "false", c, coq_z(t.exponent))


class Inst:
    """a data-class instance frozen into plain data inside the worker (unpickling a Schema would go through
    its __setitem__ and re-parse every item)"""

    def __init__(self, cls, items):
        self.cls, self.items = cls, items

    def __repr__(self):
        return "%s(%s)" % (self.cls.__name__, ", ".join("%s=%r" % kv for kv in self.items))

    def __eq__(self, other):
        return isinstance(other, Inst) and self.cls is other.cls and self.items == other.items

    def __hash__(self):
        return hash(self.cls)


def freeze(v):
    """replace data-class instances (recursively) by Inst"""
    parser = getattr(type(v), "__parser__", None)
    if parser is not None and not isinstance(v, type):
        if isinstance(v, dict):
            items = [(k, freeze(x)) for k, x in dict.items(v)]
        else:
            items = [(k, freeze(x)) for k, x in v.__dict__.items() if not k.startswith("__")]
        return Inst(type(v), items)
    t = type(v)
    if t is list:
        return [freeze(x) for x in v]
    if t is tuple:
        return tuple(freeze(x) for x in v)
    if t is dict:
        return {k: freeze(x) for k, x in v.items()}
    if t is set or t is frozenset:
        try:
            return t(freeze(x) for x in v)
        except TypeError:
            return v
    return v


class Encoder:
    """Python value -> Coq `pyval` term.  Classes/objects are numbered by the tables given."""

    def __init__(self, classes=None, enums=None, objects=None):
        self.classes = classes or {}     # python class -> id (data classes and plain classes)
        self.enums = enums or {}         # enum class -> id
        self.objects = objects or {}     # id(obj) -> tag

    def lst(self, xs):
        return "[" + "; ".join(self.val(x) for x in xs) + "]"

    def val(self, v):
        import enum
        if v is None:
            return "PNone"
        if v is True:
            return "(PBool true)"
        if v is False:
            return "(PBool false)"
        t = type(v)
        if t is int:
            return "(PInt %s)" % coq_z(v)
        if t is float:
            return "(PFlt %s)" % coq_float(v)
        if t is Decimal:
            return "(PDec %s)" % coq_dec(v)
        if t is str:
            return "(PStr %s)" % coq_str(v)
        if t is bytes:
            try:
                return "(PBytes %s)" % coq_str(v.decode("latin-1"))
            except Unencodable:
                raise
        if t is list:
            return "(PList %s)" % self.lst(v)
        if t is tuple:
            return "(PTuple %s)" % self.lst(v)
        if t is set or t is frozenset:
            items = sorted(self.val(x) for x in v)
            return "(%s [%s])" % ("PSet" if t is set else "PFrozen", "; ".join(items))
        if t is dict:
            return "(PDict [%s])" % "; ".join("(%s, %s)" % (self.val(k), self.val(x)) for k, x in v.items())
        if isinstance(v, enum.Enum) and t in self.enums:
            return "(PEnumV %d %d)" % (self.enums[t], list(t).index(v))
        if isinstance(v, type):
            if v in self.classes:
                return "(PCls %d)" % self.classes[v]
            raise Unencodable("class %r" % v)
        if t is Inst:
            if v.cls not in self.classes:
                raise Unencodable("instance of unnumbered class %r" % v.cls)
            return "(PInst %d [%s])" % (self.classes[v.cls], "; ".join(
                "(%s, %s)" % (coq_str(k), self.val(x)) for k, x in v.items))
        if t in self.classes:
            data = self.inst_data(v)
            return "(PInst %d [%s])" % (self.classes[t], "; ".join(
                "(%s, %s)" % (coq_str(k), self.val(x)) for k, x in data))
        if id(v) in self.objects:
            return "(PObj %d)" % self.objects[id(v)]
        raise Unencodable("value of type %s" % t.__name__)

    def inst_data(self, v):
        if isinstance(v, dict):
            return list(dict.items(v))
        return list(v.__dict__.items())


def coq_obs(enc, outcome):
    """outcome: ('ok', value) | ('parse',) | ('other', clsname) | ('timeout',) | ('skip',)"""
    k = outcome[0]
    if k == "ok":
        return "(OVal %s)" % enc.val(outcome[1])
    if k == "parse":
        return "OParse"
    if k == "other":
        return "(OOther %s)" % ECLS.get(outcome[1], "XOtherExc")
    if k == "timeout":
        return "ODiverge"
    return "OSkip"


ECLS = {"TypeError": "XTypeError", "ValueError": "XValueError", "IndexError": "XIndexError",
        "KeyError": "XKeyError", "AttributeError": "XAttributeError", "OverflowError": "XOverflow",
        "InvalidOperation": "XArith", "ZeroDivisionError": "XArith", "AssertionError": "XAssert"}


def classify_exc(e):
    """Canonical class of an exception raised by the implementation."""
    from utype.utils import exceptions as exc
    if isinstance(e, exc.ParseError):
        return ("parse",)
    import decimal
    if isinstance(e, decimal.DecimalException) or isinstance(e, ZeroDivisionError):
        return ("other", "InvalidOperation")
    for name in ("IndexError", "KeyError", "AttributeError", "OverflowError", "AssertionError",
                 "TypeError", "ValueError"):
        if type(e).__name__ == name or any(c.__name__ == name for c in type(e).__mro__):
            return ("other", name)
    return ("other", type(e).__name__)


# ------------------------------------------------------------------ worker pool with watchdog
class SoftTimeout(BaseException):
    pass


def _alarm(signum, frame):
    raise SoftTimeout()


def _worker(func, conn, soft):
    signal.signal(signal.SIGVTALRM, _alarm)
    import warnings
    warnings.simplefilter("ignore")
    while True:
        try:
            msg = conn.recv()
        except EOFError:
            return
        if msg is None:
            return
        idx, case = msg
        signal.setitimer(signal.ITIMER_VIRTUAL, soft)
        try:
            res = func(case)
        except SoftTimeout:
            res = ("timeout",)
        except BaseException as e:   # harness error
            res = ("harness-error", "%s: %s" % (type(e).__name__, e), traceback.format_exc()[-1500:])
        finally:
            signal.setitimer(signal.ITIMER_VIRTUAL, 0)
        conn.send((idx, res))


def pool_map(func, cases, soft=2.0, hard=20.0, nproc=None):
    """Run func(case) for each case in forked workers.  A case that exceeds `soft` seconds of CPU
    gets ('timeout',); a worker stuck in C code past `hard` wall seconds is killed and the case
    reported as ('timeout',)."""
    nproc = nproc or NCPU
    n = len(cases)
    results = [None] * n
    if n == 0:
        return results
    ctx = mp.get_context("fork")
    nxt = 0
    workers = []

    def spawn():
        a, b = ctx.Pipe()
        p = ctx.Process(target=_worker, args=(func, b, soft), daemon=True)
        p.start()
        b.close()
        return [p, a, None, 0.0]   # proc, conn, current idx, start

    for _ in range(min(nproc, n)):
        workers.append(spawn())
    done = 0
    while done < n:
        progressed = False
        for w in workers:
            p, conn, cur, st = w
            if cur is None:
                if nxt < n:
                    conn.send((nxt, cases[nxt]))
                    w[2], w[3] = nxt, time.time()
                    nxt += 1
                    progressed = True
                continue
            if conn.poll(0):
                try:
                    idx, res = conn.recv()
                except EOFError:
                    idx, res = cur, ("harness-error", "worker died", "")
                    p.kill()
                    neww = spawn()
                    w[0], w[1] = neww[0], neww[1]
                results[idx] = res
                w[2] = None
                done += 1
                progressed = True
            elif time.time() - st > hard or not p.is_alive():
                results[cur] = ("timeout",) if p.is_alive() else ("harness-error", "worker died", "")
                p.kill()
                p.join()
                neww = spawn()
                w[0], w[1], w[2] = neww[0], neww[1], None
                done += 1
                progressed = True
        if not progressed:
            time.sleep(0.002)
    for p, conn, _, _ in workers:
        try:
            conn.send(None)
        except Exception:
            pass
    for p, conn, _, _ in workers:
        p.join(timeout=1)
        if p.is_alive():
            p.kill()
    return results


# ------------------------------------------------------------------ findings, evidence, verdict
def load_findings(pid):
    f = VERIF / "known_findings.json"
    if not f.exists():
        return []
    data = json.loads(f.read_text())
    return [e for e in data.get("findings", []) if e.get("property") == pid and e.get("status") == "open"]


def write_replay(pid, payload):
    REPLAY.mkdir(parents=True, exist_ok=True)
    h = hashlib.sha1(json.dumps(payload, sort_keys=True, default=str).encode()).hexdigest()[:10]
    p = REPLAY / ("%s-%s.json" % (pid, h))
    p.write_text(json.dumps(payload, indent=1, default=str))
    return p


def write_evidence(pid, tier, seed, coverage, wall, violations, assumptions):
    EVID.mkdir(exist_ok=True)
    ev = dict(property_id=pid, tier=tier, seed=seed, level="proof", coverage=coverage,
              assumptions=assumptions, wall_s=round(wall, 2), violations=violations)
    (EVID / ("%s.json" % pid)).write_text(json.dumps(ev, indent=1, default=str))


TRUSTED_BASE = [
    "Coq 8.16.1 kernel (coqc); vm_compute used for refutation witnesses and case evaluation; no native_compute",
    "no axioms: every theorem is 'Closed under the global context' (re-audited on each run with Print Assumptions)",
    "coq/Base/PyPrim.v as a description of CPython's operators (validated by execution, not proved)",
    "hand-written models under coq/Model tied to /repo by the correspondence suites of this run",
    "tools/py2coq.py translator for coq/Gen/*.v (its output is also executed against the source functions)",
    "harness/*.py: generators, canonicaliser, Python->pyval printer",
]


class Result:
    """Accumulates what one check run found."""

    def __init__(self, pid, tier, seed):
        self.pid, self.tier, self.seed = pid, tier, seed
        self.t0 = time.time()
        self.broken = []         # list of dict(kind, name, detail)
        self.violations = []     # list of dict(case..., what)
        self.known = []          # list of (finding id, what)
        self.cov = dict(evaluations=0, distinct_nontrivial=0, samples=[], suites={})
        self.obligations = []
        self.discharged = 0
        self.notes = []

    def add_suite(self, name, evaluations, distinct, samples, rule, extra=None):
        self.cov["evaluations"] += evaluations
        self.cov["distinct_nontrivial"] += distinct
        self.cov["samples"].extend(samples[:3])
        self.cov["suites"][name] = dict(evaluations=evaluations, distinct_nontrivial=distinct, rule=rule,
                                        **(extra or {}))


def prove(res, pid, extra_targets=()):
    """build Props/<pid>.vo, audit assumptions and forbidden tokens; fills res."""
    b = build(["Props/%s.vo" % pid] + list(extra_targets))
    names = theorem_names("Props/%s.v" % pid) if (COQ / ("Props/%s.v" % pid)).exists() else []
    res.obligations = names
    if not b["ok"]:
        res.broken.append(dict(kind="proof", name=b["failed"], detail=b["log"][-3000:]))
        res.discharged = 0
        return False
    a = audit_assumptions(pid)
    res.cov["assumptions_of_theorems"] = a["assumptions"]
    if not a["ok"]:
        res.broken.append(dict(kind="audit", name="Print Assumptions", detail=a["log"]))
    if a["unexpected"]:
        res.broken.append(dict(kind="audit", name="unexpected axioms", detail=str(a["unexpected"])))
    bad = audit_forbidden()
    if bad:
        res.broken.append(dict(kind="audit", name="forbidden tokens", detail="\n".join(bad[:20])))
    res.discharged = len(names) if a["ok"] and not a["unexpected"] and not bad else 0
    return not res.broken


def finish(res, checker_cmd, rule, search=None, level_note=""):
    """Decide the verdict, write evidence, print lines, return the exit status."""
    pid = res.pid
    lines = []
    status = 0
    for fid, what in res.known:
        lines.append("KNOWN-FINDING: property=%s %s" % (pid, what))
    if res.broken and not res.violations and search is not None:
        try:
            found = search(res)
        except Exception as e:   # the search must never mask the broken obligation
            found = []
            res.notes.append("search failed: %r" % (e,))
        res.violations.extend(found or [])
    if res.violations:
        status = 1
        for v in res.violations[:5]:
            payload = dict(property=pid, kind="failing-input", **v,
                           broken=[dict(kind=b["kind"], name=b["name"]) for b in res.broken],
                           replay_cmd="./check %s --replay <this file>" % pid)
            p = write_replay(pid, payload)
            lines.append("VIOLATION property=%s replay=%s" % (pid, p))
    elif res.broken:
        status = 1
        payload = dict(property=pid, kind="broken-obligation",
                       broken=res.broken, note="no failing input found by the search",
                       replay_cmd="./check %s --replay <this file>" % pid)
        p = write_replay(pid, payload)
        lines.append("VIOLATION property=%s replay=%s no-failing-input-found" % (pid, p))
    cov = res.cov
    cov["rule"] = rule
    cov["obligations"] = max(1, len(res.obligations))
    cov["discharged"] = res.discharged
    cov["obligation_names"] = res.obligations
    cov["checker_cmd"] = checker_cmd
    cov["trusted_base"] = TRUSTED_BASE
    cov["known_findings_reproduced"] = [k[0] for k in res.known]
    cov["broken"] = [dict(kind=b["kind"], name=b["name"]) for b in res.broken]
    cov["notes"] = res.notes
    if not cov["samples"]:
        cov["samples"] = ["(no correspondence suite ran)"]
    write_evidence(pid, res.tier, res.seed, cov, time.time() - res.t0, len(res.violations) + (1 if status and not res.violations else 0),
                   [level_note] if level_note else [])
    for l in lines:
        print(l)
    print("%s %s tier=%s seed=%d obligations=%d/%d evaluations=%d distinct=%d wall=%.1fs" % (
        pid, "FAIL" if status else "ok", res.tier, res.seed, res.discharged, len(res.obligations),
        cov["evaluations"], cov["distinct_nontrivial"], time.time() - res.t0))
    return status
