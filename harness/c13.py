"""C13 — the generated JSON Schema is valid and describes what the parser does."""
import random, json, warnings, subprocess, os, tempfile
from . import core, decl, dyn, fieldgen, dcsuite, parsesuite, findings

PID = "C13"

VALIDATE_SRC = r'''
import sys, json
from jsonschema import Draft202012Validator
for line in sys.stdin:
    d = json.loads(line)
    r = {}
    try:
        Draft202012Validator.check_schema(d["schema"]); r["schema_ok"] = True
    except Exception as e:
        r["schema_ok"] = False; r["err"] = str(e)[:300]
    if r["schema_ok"]:
        v = Draft202012Validator(d["schema"])
        r["inst"] = [[e.message[:200] for e in v.iter_errors(x)][:2] for x in d.get("instances", [])]
    print(json.dumps(r))
'''


def validate_batch(jobs):
    """jsonschema (the reference implementation) lives in the tooling venv: one subprocess for the whole batch"""
    p = subprocess.run(["python3-vt", "-c", VALIDATE_SRC], input="\n".join(json.dumps(j) for j in jobs), capture_output=True, text=True)
    lines = [l for l in p.stdout.strip().split("\n") if l]
    if len(lines) != len(jobs):
        raise RuntimeError("validator failed: %s" % p.stderr[-500:])
    return [json.loads(l) for l in lines]


def in_domain(okw, src):
    # 'preserve' keeps invalid values on request and forced / unvalidated defaults are not checked by design
    return "preserve" not in src and "force_default" not in okw


def mode_class(rng):
    """fields whose visibility depends on the mode in more than one way at once: mode= together with a mode-string (or True)
    no_output / no_input / required, under a class mode that may be in neither"""
    for _ in range(30):
        name = dyn.fresh("Md")
        cm = rng.choice([None, "r", "w", "a", "a", "w"])
        lines = ["class %s(Schema):" % name]
        okw = {"mode": cm} if cm else {}
        if okw:
            lines.append("    __options__ = Options(mode=%r)" % cm)
        lines.append("    k: int")
        fields = [dict(attname="k", type="int", aliases=["k"], ci=False, theme="modes")]
        ms = lambda: rng.choice(["r", "w", "a", "rw", "ra", "wa"])
        for fn in ["x", "y", "z"][:rng.randint(1, 3)]:
            kw = []
            if rng.random() < 0.7: kw.append("default=%s" % rng.choice(["0", "7"]))
            if rng.random() < 0.7: kw.append("mode=%r" % ms())
            if rng.random() < 0.6: kw.append("no_output=%r" % rng.choice([ms(), ms(), True]))
            if rng.random() < 0.3: kw.append("no_input=%r" % rng.choice([ms(), True]))
            if not any(k.startswith("default") for k in kw) and rng.random() < 0.6: kw.append("required=%r" % rng.choice([False, ms()]))
            elif any(k.startswith("default") for k in kw) and rng.random() < 0.3: kw.append("required=%r" % ms())     # required in some modes, defaulted in the others
            lines.append("    %s: int = Field(%s)" % (fn, ", ".join(kw)) if kw else "    %s: int" % fn)
            fields.append(dict(attname=fn, type="int", aliases=[fn], ci=False, theme="modes"))
        src = "\n".join(lines) + "\n"
        try:
            dyn.declare(src)
            return name, src, fields, okw
        except Exception:
            continue
    raise RuntimeError("could not declare a mode class")


def mkrule(rng):
    k = rng.choice(["int", "str", "float", "list", "dict", "union", "tuple", "opt"])
    nm = dyn.fresh("Ru")
    if k == "int":
        body = "ge = %d\n    le = %d\n    multiple_of = %d" % (rng.randint(-5, 5), rng.randint(6, 20), rng.choice([1, 2, 5]))
    elif k == "str":
        body = rng.choice(["min_length = 1\n    max_length = 5", "regex = '[a-z]+'", "length = 3", "enum = ['a','bb']", "const = 'x'"])
    elif k == "float":
        body = rng.choice(["gt = 0\n    lt = 100", "ge = 1.5", "le = 10\n    decimal_places = 2"])
    elif k == "list":
        dyn.declare("class %s(list, Rule):\n    __args__ = (int,)\n    min_length = 1\n    max_length = 4\n    unique_items = %s\n" % (nm, rng.choice(["True", "False"])))
        return nm
    elif k == "dict":
        dyn.declare("%s = Rule.annotate(dict, str, int, constraints={'max_length': 3})\n" % nm)
        return nm
    elif k == "union":
        dyn.declare("%s = Rule.parse_annotation(annotation=Union[PositiveInt, str, None])\n" % nm)
        return nm
    elif k == "tuple":
        dyn.declare("%s = Rule.parse_annotation(annotation=Tuple[int, str])\n" % nm)
        return nm
    else:
        dyn.declare("%s = Rule.parse_annotation(annotation=Optional[List[PositiveInt]])\n" % nm)
        return nm
    dyn.declare("class %s(%s, Rule):\n    %s\n" % (nm, k, body))
    return nm


RULE_VALUES = [0, 1, 5, 10, "a", "bb", "abc", "x", 1.5, 2.25, [1], [1, 2], [1, 1], [], 50, None, {"k": 1}, {"a": "2", "b": 3}, (1, "s"), ["3", "t"],
               [4, 5, 6], "7", True]


def gen_jobs(rng, ncls, nrules):
    """(schema, encoded outputs) for data classes in both views and for constrained / container / union types"""
    from utype.specs.json_schema.generator import JsonSchemaGenerator
    from utype.utils.encode import JSONEncoder
    jobs, meta = [], []
    for ci in range(ncls + ncls // 3):
        if ci >= ncls:
            name, src, fields, okw = mode_class(rng)
        else:
            name, src, fields, okw = fieldgen.declare(rng) if rng.random() < 0.6 else fieldgen.declare_small(rng)
        K = dyn.get(name)
        for output in (False, True):
            try:
                sch = JsonSchemaGenerator(K, output=output)()
                json.dumps(sch)
            except Exception as e:
                meta.append(dict(kind="generate-fail", src=src, output=output, err="%s: %s" % (type(e).__name__, e)))
                jobs.append(dict(schema={}, instances=[]))
                continue
            insts = []
            if output and in_domain(okw, src):
                for _ in range(5):
                    try:
                        inst = K.__from__(fieldgen.rand_input(rng, fields))
                        insts.append(json.loads(json.dumps(inst, cls=JSONEncoder)))
                    except Exception:
                        continue
            jobs.append(dict(schema=sch, instances=insts))
            meta.append(dict(kind="class", src=src, output=output))
    for _ in range(nrules):
        nm = mkrule(rng)
        T = dyn.get(nm)
        try:
            sch = JsonSchemaGenerator(T)()
            json.dumps(sch)
        except Exception as e:
            meta.append(dict(kind="generate-fail", src=nm, output=None, err="%s: %s" % (type(e).__name__, e)))
            jobs.append(dict(schema={}, instances=[]))
            continue
        insts = []
        for v in RULE_VALUES:
            try:
                from utype.utils.transform import type_transform
                r = type_transform(v, T)
                insts.append(json.loads(json.dumps(r, cls=JSONEncoder)))
            except Exception:
                continue
        jobs.append(dict(schema=sch, instances=insts))
        meta.append(dict(kind="type", src=repr(T), output=None))
    return jobs, meta


# ---- structure of the object schema against Model/SchemaGen.v ----
def structure_suite(res, rng, ncls, per=120):
    from utype.specs.json_schema.generator import JsonSchemaGenerator
    world = decl.World()
    world.encoder = lambda: dcsuite.InstEncoder(classes=dict(world.classes), objects=world.objects)
    lines, srcs = [], []
    unrefl = 0
    for ci in range(ncls + ncls // 3):
        if ci >= ncls:
            name, src, fields, okw = mode_class(rng)
        else:
            name, src, fields, okw = fieldgen.declare(rng) if rng.random() < 0.6 else fieldgen.declare_small(rng)
        K = dyn.get(name)
        try:
            cid = world.cid(K)
        except (decl.Unreflectable, core.Unencodable):
            unrefl += 1
            continue
        for output in (False, True):
            try:
                sch = JsonSchemaGenerator(K, output=output)()
            except Exception:
                continue
            props = list(sch.get("properties", {}))
            req = list(sch.get("required", []))
            add = sch.get("additionalProperties", None)
            dep = sch.get("dependentRequired", {})
            s = core.coq_str
            lines.append("(%d%%nat, %s, %s, %s, %s, %s)" % (
                cid, "true" if output else "false", decl.coq_list([s(p) for p in props]), decl.coq_list([s(p) for p in req]),
                "None" if add is None else ("(Some true)" if add is True else "(Some false)" if add is False else "(Some true)"),
                decl.coq_list(["(%s, %s)" % (s(k), decl.coq_list([s(x) for x in sorted(v)])) for k, v in dep.items()])))
            srcs.append(src)
    body_tmpl = ("Definition DD : decls := %s.\n"
                 "Definition sl_eqb (a b : list string) : bool := Nat.eqb (List.length a) (List.length b) && forallb (fun p => String.eqb (fst p) (snd p)) (List.combine a b).\n"
                 "Definition sorted_deps (l : list (string * list string)) := l.\n"
                 "Definition scase := (nat * bool * list string * list string * option bool * list (string * list string))%%type.\n"
                 "Definition sok (k : scase) : bool := let '(c, out, props, req, add, dep) := k in match DD c with None => true | Some C =>\n"
                 "  sl_eqb (gen_props C out) props && sl_eqb (gen_required C out) req &&\n"
                 "  (match gen_additional C, add with Some x, Some y => Bool.eqb x y | None, None => true | _, _ => false end) &&\n"
                 "  Nat.eqb (List.length (gen_dependent C out)) (List.length dep) &&\n"
                 "  forallb (fun p => String.eqb (fst (fst p)) (fst (snd p)) && Nat.eqb (List.length (snd (fst p))) (List.length (snd (snd p)))\n"
                 "                    && forallb (fun d => str_in d (snd (snd p))) (snd (fst p))) (List.combine (gen_dependent C out) dep) end.\n")
    if not core.build(["Model/SchemaGen.vo"])["ok"]:
        res.broken.append(dict(kind="proof", name="Model/SchemaGen.vo", detail="build failed"))
        return
    # each shard carries only the declarations its own cases reach
    shards = [body_tmpl % world.decls_term_for(lines[s:s + per]) +
              "Definition cases : list scase := [\n%s\n].\nGoal True. idtac \"MISMATCH\". exact I. Qed.\nEval vm_compute in (bad_idx sok cases).\n"
              % ";\n".join(lines[s:s + per]) for s in range(0, len(lines), per)]
    bad = []
    for k, (rc, out) in enumerate(core.run_sharded("c13struct", ["Parse", "SchemaGen"], shards)):
        b = core.parse_nat_list(out, "MISMATCH") if rc == 0 else None
        if b is None:
            res.broken.append(dict(kind="correspondence", name="schema-structure (coqc failed)", detail=out[-1500:]))
            continue
        bad.extend(k * per + j for j in b)
    res.add_suite("schema-structure", len(lines), len(set(lines)), [lines[0][:300] if lines else ""],
                  "properties / required / additionalProperties / dependentRequired of the generated object schema, input and output "
                  "view, for random data classes (Field parameters, modes, class options), compared with gen_* of Model/SchemaGen.v",
                  dict(mismatches=len(bad), unreflectable=unrefl))
    if bad:
        res.broken.append(dict(kind="correspondence", name="schema-structure",
                               detail="model and generator differ on %d schemas; first: %s of\n%s" % (len(bad), lines[bad[0]][:600], srcs[bad[0]])))



def final_probe(res):
    """write-once fields: `x: Final[T]` without default takes input (and is required), with a default it never does; the input
    schema must list exactly the first kind, as the parser behaves"""
    from utype.specs.json_schema.generator import JsonSchemaGenerator
    warnings.simplefilter("ignore")
    bad, n = [], 0
    for base in ("Schema", "DataClass"):
        for opts in ("", "addition=False", "mode='w'", "addition=False, mode='a'"):
            name = dyn.fresh("Fin")
            src = ("class %s(%s):\n%s    id: Final[int]\n    opt: Final[int] = 3\n    plain: int = 0\n"
                   % (name, base, "    __options__ = Options(%s)\n" % opts if opts else ""))
            try:
                dyn.declare(src)
            except Exception as e:
                bad.append("declaration refused (%s)\n%s" % (e, src)); continue
            K = dyn.get(name)
            sch = JsonSchemaGenerator(K, output=False)()
            props, req = list(sch.get("properties", {})), list(sch.get("required", []))
            n += 1
            try:
                inst = K(id="42", opt=9)
                got = (getattr(inst, "id", None) if base == "DataClass" else inst.get("id"), getattr(inst, "opt", None) if base == "DataClass" else inst.get("opt"))
            except Exception as e:
                got = "raised %s" % type(e).__name__
            try:
                K()
                absent_ok = True
            except Exception:
                absent_ok = False
            takes_id = got != "raised" and isinstance(got, tuple) and got[0] == 42
            takes_opt = isinstance(got, tuple) and got[1] == 9
            if takes_id != ("id" in props) or takes_opt != ("opt" in props):
                bad.append("the parser %s `id` and %s `opt` (got %r), the input schema lists %r\n%s"
                           % ("takes" if takes_id else "ignores", "takes" if takes_opt else "ignores", got, props, src))
            elif (not absent_ok) != ("id" in req):
                bad.append("leaving out `id` is %s by the parser, the input schema requires %r\n%s" % ("accepted" if absent_ok else "rejected", req, src))
    res.add_suite("final-fields-probe", n, n, [dict(cls="class K(Schema): id: Final[int]; opt: Final[int] = 3", expect="properties list id, not opt; required lists id")],
                  "write-once fields with and without default, 2 base classes x 4 option sets: listed input properties and `required` against what "
                  "the parser takes and demands", dict(failures=len(bad)))
    for m in bad[:2]:
        res.violations.append(dict(case=repr(dict(kind="final-fields-probe")), observed=m, what="input schema and parser disagree on a Final field: " + m.split("\n")[0]))

# ---- the input schema against the parser: probes ----
def probe_oracle(i_seed):
    """required / properties / additionalProperties of the input schema against the parser on the same class"""
    from utype.specs.json_schema.generator import JsonSchemaGenerator
    from utype.utils import exceptions as exc
    warnings.simplefilter("ignore")
    rng = random.Random(i_seed)
    try:
        name, src, fields, okw = fieldgen.declare_small(rng) if rng.random() < 0.5 else fieldgen.declare(rng)
    except RuntimeError:
        return None
    if not in_domain(okw, src) or "min_params" in okw or "max_params" in okw or "dependencies" in src:
        return None
    K = dyn.get(name)
    sch = JsonSchemaGenerator(K, output=False)()
    props, req, add = sch.get("properties", {}), set(sch.get("required", [])), sch.get("additionalProperties", None)
    p = K.__parser__
    good = {}
    byname = {f.name: f for f in p.fields.values()}
    meta = {m.get("alias", m["attname"]): m for m in fields}
    for pname in props:
        m = meta.get(pname) or next((x for x in fields if x["attname"].lower() == pname.lower() or x.get("alias", "").lower() == pname.lower()), None)
        if m is None:
            return "property %r of the input schema is not a declared field of\n%s" % (pname, src)
        good[pname] = fieldgen.GOODV[m["type"]][0]

    def parse(d):
        try:
            return ("ok", dict(K.__from__(d)) if isinstance(K.__from__(d), dict) else K.__from__(d).__dict__)
        except exc.ParseError as e:
            return ("parse", type(e).__name__)
        except Exception as e:
            return ("other", type(e).__name__)
    base = parse(dict(good))
    if base[0] != "ok":
        return "an input with every listed property (valid values) is rejected (%r): %r of\n%s" % (base, good, src)
    for pname in props:
        d = dict(good)
        del d[pname]
        r = parse(d)
        if pname in req and r[0] == "ok":
            return "%r is listed as required but the parser accepts an input without it: %r of\n%s" % (pname, d, src)
        if pname not in req and r[0] != "ok":
            return "%r is not listed as required but its absence is an error (%r): %r of\n%s" % (pname, r, d, src)
    # a field that is not listed does not take input
    for f in p.fields.values():
        if f.name not in props:
            d = dict(good)
            m = meta.get(f.name) or next((x for x in fields if x["attname"] == f.attname), None)
            marker = fieldgen.GOODV[m["type"]][-1] if m else 1
            d[f.name] = marker
            r1, r0 = parse(d), base
            if r1[0] == "ok" and r1[1].get(f.name, r1[1].get(f.attname)) != r0[1].get(f.name, r0[1].get(f.attname)) and r1[1] != r0[1]:
                return "field %r is not listed in the input schema but takes input: %r -> %r (without it %r) of\n%s" % (f.name, d, r1[1], r0[1], src)
    d = dict(good)
    d["zz_unknown"] = 1
    r = parse(d)
    if add is False and r[0] == "ok":
        return "additionalProperties is false but an unknown key is accepted: %r of\n%s" % (r, src)
    if add is not False and r[0] != "ok":
        return "additionalProperties is %r but an unknown key is rejected (%r) of\n%s" % (add, r, src)
    if r[0] == "ok":
        kept = "zz_unknown" in r[1]
        if (add is True) != kept:
            return "additionalProperties is %r but the unknown key was %s of\n%s" % (add, "kept" if kept else "dropped", src)
    return None


def main(tier, seed):
    warnings.simplefilter("ignore")
    res = core.Result(PID, tier, seed)
    core.prove(res, PID)
    rng = random.Random(seed * 157 + 13)
    structure_suite(res, rng, 150 if tier == "quick" else 2000)
    final_probe(res)
    jobs, meta = gen_jobs(rng, 140 if tier == "quick" else 2000, 120 if tier == "quick" else 1500)
    try:
        results = validate_batch(jobs)
    except Exception as e:
        res.broken.append(dict(kind="correspondence", name="jsonschema validator", detail=str(e)[:800]))
        results = []
    bad = []
    n_inst = 0
    for j, m, r in zip(jobs, meta, results):
        if m["kind"] == "generate-fail":
            bad.append("the generator failed or wrote a document that is not JSON (%s) for %s view of\n%s" % (m["err"], "output" if m["output"] else "input", m["src"]))
            continue
        if not r["schema_ok"]:
            bad.append("not a valid draft 2020-12 schema (%s): %s of\n%s" % (r.get("err"), json.dumps(j["schema"])[:400], m["src"]))
            continue
        for x, errs in zip(j["instances"], r.get("inst", [])):
            n_inst += 1
            if errs:
                bad.append("the parser produced %s which does not validate against the generated schema %s (%s) of\n%s" % (
                    json.dumps(x)[:300], json.dumps(j["schema"])[:500], errs, m["src"]))
    res.add_suite("schema-validity", len(jobs), len({json.dumps(j["schema"], sort_keys=True) for j in jobs}),
                  [dict(schema=json.dumps(jobs[0]["schema"])[:300])],
                  "every generated document (data classes in input and output view; constrained scalars, lists, dicts, tuples, unions, "
                  "optionals) is JSON and a valid draft 2020-12 schema (jsonschema reference implementation), and every value the parser "
                  "produces for that type / class, JSON-encoded, validates against it (classes with the 'preserve' policy or forced "
                  "defaults are outside: they hold unvalidated values by request)",
                  dict(instances_validated=n_inst, failures=len(bad)))
    for o in bad[:3]:
        res.violations.append(dict(case=repr(dict(kind="validity")), observed=o, what=o))
    n = 500 if tier == "quick" else 8000
    pouts = core.pool_map(probe_oracle, [seed * 1000033 + i for i in range(n)])
    pbad = [o for o in pouts if isinstance(o, str)]
    res.add_suite("input-schema-probes", n, n, ["seeded classes"],
                  "for random classes: an input holding every listed property is accepted; removing one property is an error exactly when "
                  "it is listed as required; a field that is not listed does not take input; an unknown key is rejected / kept / dropped "
                  "as additionalProperties says", dict(failures=len(pbad), applicable=sum(1 for o in pouts if o is None or isinstance(o, str))))
    for o in pbad[:3]:
        res.violations.append(dict(case=repr(dict(kind="probe")), observed=o, what=o))
    return core.finish(res, "make -C coq Props/C13.vo && coqc (Print Assumptions audit)", "see suites", search=None,
                       level_note="partial: the theorems tie the object structure of the schema (properties, required, additionalProperties, "
                                  "output required / listed keys) to the field contract of C05 through Model/SchemaGen.v (tied by the "
                                  "schema-structure suite); validity of the documents against the draft 2020-12 meta-schema and of produced "
                                  "values against the property sub-schemas (types, constraints, containers, unions) is decided with the "
                                  "jsonschema reference implementation; $defs / $ref, functions, formats and x-annotations are not covered")


def replay(path):
    d = json.loads(open(path).read())
    print(json.dumps(d, indent=1)[:3000])
    if "case" not in d:
        r = core.build(["Props/%s.vo" % PID])
        return 0 if r["ok"] else 1
    return 1
