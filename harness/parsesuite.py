from decimal import Decimal
"""Suite `parse`: (type, options, value) triples run through utype's type_transform and through
Model/Parse.v `type_transform`; outcomes compared inside Coq."""
import random, warnings
from . import core, decl, gen

FUEL = 40


def gen_case(rng, depth=3):
    spec = decl.rand_spec(rng, rng.choice([0, 1, 1, 2, 2, depth]))
    kw = decl.rand_options(rng)
    r = rng.random()
    v = decl.valid_value(rng, spec)
    if r < 0.35:
        v = decl.mutate(rng, v)
    elif r < 0.45:
        v = gen.value(rng, 2)
    return dict(spec=spec, options=kw, value=v)


def gen_union_case(rng):
    """unions / xors of 2-3 leaves under every flag combination, with values the leaves disagree on"""
    op = rng.choice(["|", "|", "|", "^"])
    leaves = [("leaf", rng.choice(decl.LEAVES)) for _ in range(rng.randint(2, 3))]
    spec = ("logic", op, leaves)
    if rng.random() < 0.3:
        spec = rng.choice([("list", spec, {}), ("dict", ("leaf", "str"), spec), ("optional", spec)])
    kw = {}
    fl = rng.randrange(4)
    if fl & 1:
        kw["no_data_loss"] = True
    if fl & 2:
        kw["no_explicit_cast"] = True
    if rng.random() < 0.2:
        kw["collect_errors"] = True
    v = decl.valid_value(rng, spec) if rng.random() < 0.8 else gen.scalar(rng)
    return dict(spec=spec, options=kw, value=v)


def gen_xor_case(rng):
    """exclusive-or of three or four leaves: the exact-class shortcut has to win over two other accepting arguments"""
    leaves = [("leaf", x) for x in rng.sample(decl.LEAVES, rng.randint(3, 4))]
    spec = ("logic", "^", leaves)
    kw = {}
    if rng.random() < 0.25:
        kw["no_data_loss"] = True
    if rng.random() < 0.15:
        kw["collect_errors"] = True
    k = rng.random()
    v = decl.valid_value(rng, spec) if k < 0.6 else (gen.scalar(rng) if k < 0.9 else rng.choice([None, "null", b"5", "true", "", [1]]))
    return dict(spec=spec, options=kw, value=v)


RULE_LEAVES = ["digits", "posint", "month", "shortstr", "laxint", "enum_ab", "const5", "bfloat"]
RULE_UNION_VALUES = [12.0, " 12 ", "12", 12, "123", 123, 5, "5", 5.0, 7.5, "7.5", "a", "ab", "abcd", 0, "0", 3, 11, "11", 99.0, 100,
                     True, b"12", "1e1", Decimal("12"), Decimal("5.0"), [5], ["12"]]


def gen_rule_union_case(rng):
    """unions whose arms are all constrained (Rule) types, so no exact-type shortcut applies: mostly under exactly one of the
    two strictness flags (the stage that runs with both is then what keeps a second parse on the same arm)"""
    leaves = [("leaf", x) for x in rng.sample(RULE_LEAVES, rng.randint(2, 3))]
    spec = ("logic", "|", leaves)
    if rng.random() < 0.2:
        spec = rng.choice([("list", spec, {}), ("dict", ("leaf", "str"), spec)])
    kw = rng.choice([{"no_data_loss": True}, {"no_data_loss": True}, {"no_explicit_cast": True}, {}, {"no_data_loss": True, "no_explicit_cast": True}])
    v = rng.choice(RULE_UNION_VALUES)
    if spec[0] == "list":
        v = [v, rng.choice(RULE_UNION_VALUES)]
    elif spec[0] == "dict":
        v = {"k": v}
    return dict(spec=spec, options=dict(kw), value=v)


_cache = {}


def build(spec):
    key = repr(spec)
    if key not in _cache:
        _cache[key] = decl.build_spec(spec)
    return _cache[key]


def run_impl(case):
    import utype
    from utype.utils.transform import type_transform
    try:
        T = build(case["spec"])
        o = utype.Options(**case["options"])
    except Exception as e:
        return ("config-error", type(e).__name__)
    try:
        r = type_transform(case["value"], T, o)
    except Exception as e:
        return core.classify_exc(e)
    return ("ok", core.freeze(r))


def coq_case(world, case, outcome):
    import utype
    T = build(case["spec"])
    o = utype.Options(**case["options"])
    enc = world.encoder()
    return "(%s,\n  %s,\n  %s,\n  %s)" % (decl.reflect_options(world, o), decl.reflect_type(world, T),
                                       enc.val(case["value"]), core.coq_obs(enc, outcome))


PRELUDE = """
Definition no_re (p s : string) : bool := false.
Definition pcase := (options * ty * pyval * obs)%%type.
Definition run_case (D : decls) (k : pcase) : obs :=
  let '(o, t, v, _) := k in observe (type_transform RE D %d o t v).
Definition case_ok (D : decls) (k : pcase) : bool := let '(_, _, _, e) := k in obs_sim (run_case D k) e.
Definition case_skip (D : decls) (k : pcase) : bool := obs_is_skip (run_case D k).
"""


def regex_oracle(patterns_strings):
    """re_table over all (pattern, string) pairs a shard may need"""
    import re
    rows = []
    for p, s in patterns_strings:
        try:
            rows.append("(%s, %s, %s)" % (core.coq_str(p), core.coq_str(s), decl.coq_bool(bool(re.fullmatch(p, s)))))
        except core.Unencodable:
            pass
    return "(re_std [%s])" % "; ".join(rows)


def strings_in(v, acc):
    if isinstance(v, str):
        acc.add(v)
    elif isinstance(v, bytes):
        try:
            acc.add(v.decode())
        except Exception:
            pass
    elif isinstance(v, (int, float)) or v is None:
        acc.add(str(v))
    elif isinstance(v, (list, tuple, set, frozenset)):
        for x in v:
            strings_in(x, acc)
    elif isinstance(v, dict):
        for k, x in v.items():
            strings_in(k, acc)
            strings_in(x, acc)
    else:
        try:
            acc.add(str(v))
        except Exception:
            pass


def run_suite(res, cases, name, per=250, fuel=FUEL, rule="", extra=None):
    warnings.simplefilter("ignore")
    outs = core.pool_map(run_impl, cases)
    world = decl.World()
    lines, idx, skipped_cfg, unenc = [], [], 0, 0
    for i, (c, o) in enumerate(zip(cases, outs)):
        if o[0] == "config-error":
            skipped_cfg += 1
            continue
        if o[0] == "harness-error":
            res.broken.append(dict(kind="correspondence", name=name + " (harness error)", detail=str(o)[:1500]))
            continue
        try:
            lines.append(coq_case(world, c, o))
            idx.append(i)
        except (core.Unencodable, decl.Unreflectable):
            unenc += 1
    strs = set()
    for c in cases:
        strings_in(c["value"], strs)
    pats = ["[0-9]+"]
    table = regex_oracle([(p, s) for p in pats for s in strs])
    shards = []
    for s in range(0, len(lines), per):
        shards.append("Definition RE := %s.\n%s\nDefinition DD : decls := %s.\nDefinition cases : list pcase := [\n%s\n].\n"
                      "Goal True. idtac \"MISMATCH\". exact I. Qed.\nEval vm_compute in (bad_idx (case_ok DD) cases).\n"
                      "Goal True. idtac \"SKIPS\". exact I. Qed.\nEval vm_compute in (count_if (case_skip DD) cases).\n"
                      % (table, PRELUDE % fuel, world.decls_term_for(lines[s:s + per]), ";\n".join(lines[s:s + per])))
    mism, skips = [], 0
    b = core.build(["Model/Parse.vo"])
    if not b["ok"]:
        res.broken.append(dict(kind="proof", name=b["failed"], detail=b["log"][-2000:]))
        return []
    for k, (rc, out) in enumerate(core.run_sharded(name.replace("-", "_"), ["Parse"], shards)):
        bad = core.parse_nat_list(out, "MISMATCH") if rc == 0 else None
        if bad is None:
            res.broken.append(dict(kind="correspondence", name=name + " (coqc failed)", detail=out[-1500:]))
            continue
        skips += core.parse_nat(out, "SKIPS") or 0
        mism.extend(idx[k * per + j] for j in bad)
    okinds = {}
    for o in outs:
        key = o[0] if o[0] != "other" else "other:" + o[1]
        okinds[key] = okinds.get(key, 0) + 1
    shapes = {}
    for c in cases:
        shapes[c["spec"][0]] = shapes.get(c["spec"][0], 0) + 1
    distinct = len({repr((c["spec"], sorted(c["options"].items()), c["value"])) for c in cases})
    res.add_suite(name, len(cases), max(0, distinct - skips - skipped_cfg - unenc),
                  [dict(case=repr(cases[0]), impl=repr(outs[0]))],
                  rule or "random type trees x options x type-directed values (mostly valid, one position damaged, or hostile); "
                          "distinct by (type, options, value); Unmodelled / unencodable cases subtracted",
                  dict(outcome_kinds=okinds, type_shapes=shapes, unmodelled_skipped=skips, config_errors=skipped_cfg,
                       unencodable=unenc, mismatches=len(mism), **(extra or {})))
    if mism:
        res.broken.append(dict(kind="correspondence", name=name,
                               detail="model and implementation differ on %d cases; first: %r -> impl %r"
                                      % (len(mism), cases[mism[0]], outs[mism[0]])))
    return [(cases[i], outs[i]) for i in mism]
