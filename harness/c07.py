"""C07 — data-class instances stay valid under every sequence of mutations."""
import random, re, warnings
from . import core, decl, dyn, fieldgen, dcsuite, parsesuite, findings

PID = "C07"

VALS = [1, "2", 3.0, "x", None, True, "false", 0, -1, [1, "2"], [], "bc", 5, "", [["x"]]]


def rand_class(rng):
    """a fieldgen class, some fields immutable, sometimes an immutable / forgiving class"""
    for _ in range(40):
        small = rng.random() < 0.5
        name, src, fields, okw = (fieldgen.small_class(rng) if small else fieldgen.rand_class(rng))
        okw = {k: v for k, v in okw.items() if k not in ("max_errors",)}
        if rng.random() < 0.08:
            okw["immutable"] = True
        if rng.random() < 0.2:
            okw["ignore_delete_nonexistent"] = True
        lines = [l for l in src.rstrip("\n").split("\n") if "__options__" not in l]
        if okw:
            lines.insert(1, "    __options__ = Options(%s)" % ", ".join("%s=%r" % kv for kv in okw.items()))
        # make some fields immutable
        for i in range(2 if okw else 1, len(lines)):
            if rng.random() < 0.15 and "immutable" not in lines[i]:
                if "Field(" in lines[i]:
                    lines[i] = lines[i].replace("Field(", "Field(immutable=True, ", 1).replace(", )", ")")
                elif "=" not in lines[i]:
                    lines[i] = lines[i] + " = Field(immutable=True)"
        # ... or Final, with or without an explicit Field
        import re as _re
        for i in range(2 if okw else 1, len(lines)):
            m = _re.match(r"^(    \w+: )([^=]+?)( = .*)?$", lines[i])
            if m and rng.random() < 0.1 and "Final" not in lines[i] and "immutable" not in lines[i]:
                lines[i] = "%sFinal[%s]%s" % (m.group(1), m.group(2).strip(), m.group(3) or "")
        src2 = "\n".join(lines) + "\n"
        try:
            dyn.declare(src2)
        except Exception:
            continue
        return name, src2, fields, okw
    raise RuntimeError("could not declare")


def keys_of(rng, fields, attr=False):
    f = rng.choice(fields)
    if attr:
        return f["attname"], f
    ks = list(f["aliases"]) + ([f["alias"]] if "alias" in f else [])
    k = rng.choice(ks)
    if rng.random() < 0.12:
        k = rng.choice([k.upper(), k.capitalize()])
    return k, f


def value_for(rng, f):
    t = f["type"]
    r = rng.random()
    if r < 0.55:
        return rng.choice(fieldgen.GOODV[t])
    if r < 0.8 and t in fieldgen.BADV:
        return rng.choice(fieldgen.BADV[t])
    return rng.choice(VALS)


def inst_arg(cls, m):
    """the mapping an instance-argument update passes: an instance of cls built from m, or m itself when cls refuses it"""
    try:
        return cls.__from__(dict(m))
    except Exception:
        return m


def rand_ops(rng, fields, dict_based, n):
    ops = []
    for _ in range(n):
        r = rng.random()
        unknown = rng.random() < 0.15
        if not dict_based:
            a, f = keys_of(rng, fields, attr=True)
            ops.append(("setattr", a, value_for(rng, f)) if r < 0.65 else ("delattr", a))
            continue
        if r < 0.25:
            k, f = keys_of(rng, fields)
            ops.append(("setitem", "zz", rng.choice(VALS)) if unknown else ("setitem", k, value_for(rng, f)))
        elif r < 0.37:
            a, f = keys_of(rng, fields, attr=True)
            ops.append(("setattr", a, value_for(rng, f)))
        elif r < 0.47:
            k, f = keys_of(rng, fields)
            ops.append(("delitem", "zz" if unknown else k))
        elif r < 0.53:
            a, f = keys_of(rng, fields, attr=True)
            ops.append(("delattr", a))
        elif r < 0.63:
            k, f = keys_of(rng, fields)
            ops.append(("pop", "zz" if unknown else k, rng.random() < 0.5))
        elif r < 0.70:
            ops.append(("popitem",))
        elif r < 0.82:
            m = {}
            for _ in range(rng.randint(0, 3)):
                k, f = keys_of(rng, fields)
                if rng.random() < 0.15:
                    m["zz"] = rng.choice(VALS)
                else:
                    m[k] = value_for(rng, f)
            if rng.random() < 0.3:
                # the argument is an instance of the same class (built from m when m is valid data for it): the keys must go
                # through the same per-key path as those of a plain mapping
                ops.append((rng.choice(["update", "ior"]), m, "inst"))
            else:
                ops.append((rng.choice(["update", "ior"]), m))
        elif r < 0.92:
            k, f = keys_of(rng, fields)
            ops.append(("setdefault", "zz" if unknown else k, value_for(rng, f)))
        elif r < 0.96:
            ops.append(("clear",))
        else:
            ops.append(("copy",))
    return ops


class AttrErr:
    def __repr__(self):
        return "<AttributeError>"


def snapshot(inst, attnames):
    if isinstance(inst, dict):
        d = list(dict.items(inst))
    else:
        d = []
    view = []
    for a in attnames:
        try:
            view.append(("v", getattr(inst, a)))
        except AttributeError:
            view.append(("n",))
        except Exception as e:
            view.append(("e", type(e).__name__))
    return (d, view)


def run_impl(case):
    """construct, apply the operations; after every step: outcome kind, mapping items, attribute view.
    'copy' continues on the copy and remembers the original, which must not change any more."""
    import utype
    from utype.utils import exceptions as exc
    warnings.simplefilter("ignore")
    cls = dyn.get(case["cls"])
    attnames = [f.attname for f in cls.__parser__.fields.values()]
    try:
        cur = cls.__from__(case["data"])
    except Exception as e:
        return ("no-instance", core.classify_exc(e))
    steps = [(0, core.freeze(snapshot(cur, attnames)))]
    originals = []
    for op in case["ops"]:
        kind = 0
        try:
            if op[0] == "setitem": cur[op[1]] = op[2]
            elif op[0] == "setattr": setattr(cur, op[1], op[2])
            elif op[0] == "delitem": del cur[op[1]]
            elif op[0] == "delattr": delattr(cur, op[1])
            elif op[0] == "pop": cur.pop(op[1], None) if op[2] else cur.pop(op[1])
            elif op[0] == "popitem": cur.popitem()
            elif op[0] == "update": cur.update(inst_arg(cls, op[1]) if len(op) > 2 else op[1])
            elif op[0] == "ior": cur.__ior__(inst_arg(cls, op[1]) if len(op) > 2 else op[1])
            elif op[0] == "setdefault": cur.setdefault(op[1], op[2])
            elif op[0] == "clear": cur.clear()
            elif op[0] == "copy":
                originals.append((cur, core.freeze(snapshot(cur, attnames))))
                cur = cur.copy()
        except exc.ParseError:
            kind = 1
        except exc.FieldError:     # UpdateError / DeleteError (subclasses of AttributeError and KeyError)
            kind = 3
        except KeyError:
            kind = 2
        except Exception as e:
            kind = 3
        steps.append((kind, core.freeze(snapshot(cur, attnames))))
    alias = None
    for o, snap in originals:
        now = core.freeze(snapshot(o, attnames))
        if repr(now) != repr(snap):
            alias = "an instance changed after it was copied and only the copy was mutated: %r -> %r" % (snap, now)
    return ("ok", steps, alias)


PRELUDE = """
Definition okind (e : option exn) : nat :=
  match e with
  | None => 0%nat
  | Some x => match ex_cls x with XParse => 1%nat | XKeyError => 2%nat | XAssert => 9%nat | _ => 3%nat end
  end.
Definition oveq (a b : option pyval) : bool :=
  match a, b with Some x, Some y => val_eqb x y | None, None => true | _, _ => false end.
Fixpoint sd_eqb (a b : sdata) : bool :=
  match a, b with
  | [], [] => true
  | (k, v) :: r, (k', v') :: r' => String.eqb k k' && val_eqb v v' && sd_eqb r r'
  | _, _ => false
  end.
Fixpoint views_eqb (a : list (string * option pyval)) (b : list (option pyval)) : bool :=
  match a, b with
  | [], [] => true
  | (_, x) :: r, y :: r' => oveq x y && views_eqb r r'
  | _, _ => false
  end.
Definition obs1 : Type := (nat * sdata * list (option pyval))%type.
Definition same_obs (C : cdecl) (o : options) (k : nat) (i : inst) (ob : obs1) : bool :=
  let '(k', d, vw) := ob in Nat.eqb k k' && sd_eqb (i_dict i) d && views_eqb (attr_view C o i) vw.
Fixpoint replay (tr : options -> Z -> ty -> pyval -> M pyval) (C : cdecl) (o : options) (fl : sflags)
         (i : inst) (ops : list sop) (obs : list obs1) : nat :=
  match ops, obs with
  | [], [] => 0%nat
  | op :: r, ob :: r' =>
      let '(i', e) := step tr C o fl i op in
      if Nat.eqb (okind e) 9 then 2%nat
      else if same_obs C o (okind e) i' ob then replay tr C o fl i' r r' else 1%nat
  | _, _ => 1%nat
  end.
(* 0 = agree; 1 = differ; 2 = skipped *)
Definition mcase : Type := (nat * bool * bool * sdata * list sop * list obs1)%type.
Definition run_mcase (k : mcase) : nat :=
  let '(c, imm, ign, data, ops, obs) := k in
  match DD c with
  | None => 2%nat
  | Some C =>
      let o := nested_options C default_options in
      let tr := transform RE DD 60 in
      match in_fresh (parse_data tr C o 1 data), obs with
      | Ok values, ob0 :: rest =>
          let i0 := init_inst C o values in
          if same_obs C o 0%nat i0 ob0
          then match replay tr C o {| sf_immutable := imm; sf_ign_del := ign |} i0 ops rest with
               | O => if negb (wf_inst C) then 4%nat else if negb (init_okb C o i0) then 5%nat else 0%nat
               | n => n
               end
          else 1%nat
      | _, _ => 2%nat
      end
  end.
"""


def coq_op(enc, op):
    s = core.coq_str
    if op[0] == "setitem": return "(OSetItem %s %s)" % (s(op[1]), enc.val(op[2]))
    if op[0] == "setattr": return "(OSetAttr %s %s)" % (s(op[1]), enc.val(op[2]))
    if op[0] == "delitem": return "(ODelItem %s)" % s(op[1])
    if op[0] == "delattr": return "(ODelAttr %s)" % s(op[1])
    if op[0] == "pop": return "(OPop %s %s)" % (s(op[1]), "true" if op[2] else "false")
    if op[0] == "popitem": return "OPopItem"
    if op[0] in ("update", "ior"):
        return "(OUpdate [%s])" % "; ".join("(%s, %s)" % (s(k), enc.val(v)) for k, v in op[1].items())
    if op[0] == "setdefault": return "(OSetDefault %s %s)" % (s(op[1]), enc.val(op[2]))
    if op[0] == "clear": return "OClear"
    raise core.Unencodable("op")


def coq_obs1(enc, step):
    kind, (d, view) = step
    items = "; ".join("(%s, %s)" % (core.coq_str(k), enc.val(v)) for k, v in d)
    vw = []
    for x in view:
        if x[0] == "v":
            vw.append("(Some %s)" % enc.val(x[1]))
        elif x[0] == "n":
            vw.append("None")
        else:
            raise core.Unencodable("attribute read raised")
    return "(%d%%nat, [%s], [%s])" % (kind, items, "; ".join(vw))


def run_suite(res, cases, name, per=150):
    outs = core.pool_map(run_impl, cases)
    world = decl.World()
    world.encoder = lambda: dcsuite.InstEncoder(classes=dict(world.classes), objects=world.objects)
    lines, idx, strs = [], [], set()
    noinst = unenc = 0
    alias = []
    for i, (c, o) in enumerate(zip(cases, outs)):
        if o[0] != "ok":
            noinst += 1
            continue
        if o[2]:
            alias.append((c, o[2]))
        try:
            cls = dyn.get(c["cls"])
            cid = world.cid(cls)
            enc = world.encoder()
            ops = [op for op in c["ops"] if op[0] != "copy"]
            ops = [(op[0], dict(dict.items(a)) if isinstance(a, dict) else op[1]) if (op[0] in ("update", "ior") and len(op) > 2)
                   else op for op in ops for a in [inst_arg(cls, op[1]) if (op[0] in ("update", "ior") and len(op) > 2) else None]]
            steps = [o[1][0]] + [st for op, st in zip(c["ops"], o[1][1:]) if op[0] != "copy"]
            data = "[%s]" % "; ".join("(%s, %s)" % (core.coq_str(k), enc.val(v)) for k, v in c["data"].items())
            opt = cls.__options__
            lines.append("(%d%%nat, %s, %s, %s, [%s], [%s])" % (
                cid, "true" if opt.immutable else "false", "true" if opt.ignore_delete_nonexistent else "false", data,
                "; ".join(coq_op(enc, op) for op in ops), "; ".join(coq_obs1(enc, st) for st in steps)))
            idx.append(i)
            parsesuite.strings_in(c["data"], strs)
            for op in ops:
                parsesuite.strings_in(list(op[1:]), strs)
        except (core.Unencodable, decl.Unreflectable, AttributeError, TypeError):
            unenc += 1
    table = parsesuite.regex_oracle([("[0-9]+", s) for s in strs])
    b = core.build(["Proofs/SchemaProofs.vo"])
    if not b["ok"]:
        res.broken.append(dict(kind="proof", name=b["failed"], detail=b["log"][-2000:]))
        return [], alias
    shards = ["Definition RE := %s.\nDefinition DD : decls := %s.\n%s\nDefinition cases : list mcase := [\n%s\n].\n"
              "Goal True. idtac \"RES\". exact I. Qed.\nEval vm_compute in (map run_mcase cases).\n"
              % (table, world.decls_term_for(lines[s:s + per]), PRELUDE, ";\n".join(lines[s:s + per])) for s in range(0, len(lines), per)]
    mism, skips, total_ops = [], 0, 0
    hyp_fail = {}
    for k, (rc, out) in enumerate(core.run_sharded(name, ["Parse", "Schema", "FieldSpec", "SchemaProofs"], shards)):
        vals = core.parse_nat_list(out, "RES") if rc == 0 else None
        if vals is None:
            res.broken.append(dict(kind="correspondence", name=name + " (coqc failed)", detail=out[-1500:]))
            continue
        for j, v in enumerate(vals):
            if v == 1:
                mism.append(idx[k * per + j])
            elif v == 2:
                skips += 1
            elif v in (4, 5):
                hyp_fail[v] = hyp_fail.get(v, 0) + 1
    hist = {}
    for c in cases:
        for op in c["ops"]:
            hist[op[0]] = hist.get(op[0], 0) + 1
            total_ops += 1
    kinds = {0: 0, 1: 0, 2: 0, 3: 0}
    for o in outs:
        if o[0] == "ok":
            for st in o[1][1:]:
                kinds[st[0]] += 1
    res.add_suite(name, len(cases), max(0, len(lines) - skips),
                  [dict(case=repr(cases[0])[:600])],
                  "random Schema / DataClass declarations (fieldgen: aliases, case-insensitive names, modes, no_output, defaults, "
                  "on_error policies, required modes; immutable fields, immutable / ignore_delete_nonexistent classes), an instance "
                  "built from a random input, then 1-8 random operations (item / attribute assignment and deletion, pop, popitem, "
                  "update, |=, setdefault, clear, copy) with valid, convertible and invalid values; the mapping and the attribute "
                  "read of every field are compared with Model/Schema.v after every step",
                  dict(operations=total_ops, op_histogram=hist, step_outcomes={"ok": kinds[0], "ParseError": kinds[1],
                       "KeyError": kinds[2], "other error": kinds[3]}, no_instance=noinst, unencodable=unenc,
                       unmodelled_skipped=skips, mismatches=len(mism), aliasing_failures=len(alias),
                       theorem_hypotheses_hold=max(0, len(lines) - skips - len(mism) - sum(hyp_fail.values())),
                       declaration_not_wf=hyp_fail.get(4, 0), constructed_instance_not_ok=hyp_fail.get(5, 0)))
    if hyp_fail:
        res.broken.append(dict(kind="correspondence", name="hypotheses of C07",
                               detail="wf_inst fails on %d and init_okb on %d of the reflected classes / constructed instances: the "
                                      "theorems do not apply to them" % (hyp_fail.get(4, 0), hyp_fail.get(5, 0))))
    if mism:
        res.broken.append(dict(kind="correspondence", name=name,
                               detail="model and implementation differ on %d sequences; first: %r -> %r"
                                      % (len(mism), cases[mism[0]], outs[mism[0]])))
    return [(cases[i], outs[i]) for i in mism], alias


def gen_cases(rng, ncls, per):
    cases, srcs = [], {}
    for _ in range(ncls):
        name, src, fields, okw = rand_class(rng)
        srcs[name] = src
        dict_based = issubclass(dyn.get(name), dict)
        cls = dyn.get(name)
        for _ in range(per):
            for attempt in range(4):           # prefer inputs that construct an instance
                data = fieldgen.rand_input(rng, fields) if attempt < 2 else \
                    {f["attname"]: fieldgen.GOODV[f["type"]][0] for f in fields if rng.random() < 0.9}
                data = {k: v for k, v in data.items() if isinstance(k, str)}
                try:
                    cls.__from__(data)
                    break
                except Exception:
                    continue
            cases.append(dict(cls=name, data=data, ops=rand_ops(rng, fields, dict_based, rng.randint(1, 8))))
    return cases, srcs


def declared_immutable(cls, f):
    """immutability as the declaration states it (not as the library's own ParserField.immutable reports it): a Final annotation,
    Field(immutable=True), or an immutable class"""
    import typing
    for klass in cls.__mro__:
        ann = getattr(klass, "__dict__", {}).get("__annotations__", {}).get(f.attname)
        if ann is not None:
            if typing.get_origin(ann) is typing.Final or ann is typing.Final:
                return True
            break
    if getattr(f.field, "immutable", False):
        return True
    return bool(getattr(cls.__options__, "immutable", False))


# ---- the invariant itself, judged on the implementation ----
def invariant_oracle(case):
    """after every step: required fields present, immutable fields unchanged, every present field value is what the field's
    own type accepts unchanged (re-parsing it gives an equal value), key view and attribute view agree, a raising single-key
    operation leaves the data as it was"""
    import utype
    from utype.utils import exceptions as exc
    from utype.utils.datastructures import unprovided
    warnings.simplefilter("ignore")
    cls = dyn.get(case["cls"])
    p = cls.__parser__
    try:
        cur = cls.__from__(case["data"])
    except Exception:
        return None
    opts = cls.__options__
    dict_based = isinstance(cur, dict)

    def state(x):
        return (list(dict.items(x)) if dict_based else None, {k: v for k, v in x.__dict__.items() if not k.startswith("__")})

    def check(x, first):
        for key, f in p.fields.items():
            if f.property:
                continue
            present = (f.name in x) if dict_based else (f.attname in x.__dict__)
            no_out = f.always_no_output(opts)
            if f.is_required(opts) and not no_out and not present:
                return "required field %r is missing" % f.attname
            if declared_immutable(cls, f):
                now = dict.get(x, f.name, unprovided) if dict_based else x.__dict__.get(f.attname, unprovided)
                if repr(now) != repr(first.get(f.attname)):
                    return "immutable field %r changed: %r -> %r" % (f.attname, first.get(f.attname), now)
            if present:
                v = dict.__getitem__(x, f.name) if dict_based else x.__dict__[f.attname]
                if unprovided(v):
                    return "field %r holds the `unprovided` marker" % f.attname
            if dict_based:
                try:
                    a = getattr(x, f.attname)
                    has_attr = True
                except AttributeError:
                    has_attr = False
                except Exception:
                    continue
                if not no_out and not f.no_output:
                    deferred = not unprovided(f.get_default(opts, defer=True))
                    if present and (not has_attr or repr(a) != repr(dict.__getitem__(x, f.name))):
                        return "key %r is present but the attribute %r %s" % (f.name, f.attname, "differs" if has_attr else "is missing")
                    if not present and has_attr and not deferred:
                        return "key %r is absent but the attribute %r still reads %r" % (f.name, f.attname, a)
        return None

    first = {}
    for key, f in p.fields.items():
        first[f.attname] = dict.get(cur, f.name, unprovided) if dict_based else cur.__dict__.get(f.attname, unprovided)
    msg = check(cur, first)
    if msg:
        return "after construction: " + msg
    for n, op in enumerate(case["ops"]):
        before = state(cur)
        raised = None
        was_there = op[0] == "setdefault" and (op[1] in cur)
        try:
            if op[0] == "setitem": cur[op[1]] = op[2]
            elif op[0] == "setattr": setattr(cur, op[1], op[2])
            elif op[0] == "delitem": del cur[op[1]]
            elif op[0] == "delattr": delattr(cur, op[1])
            elif op[0] == "pop": cur.pop(op[1], None) if op[2] else cur.pop(op[1])
            elif op[0] == "popitem": cur.popitem()
            elif op[0] == "update": cur.update(inst_arg(cls, op[1]) if len(op) > 2 else op[1])
            elif op[0] == "ior": cur.__ior__(inst_arg(cls, op[1]) if len(op) > 2 else op[1])
            elif op[0] == "setdefault": cur.setdefault(op[1], op[2])
            elif op[0] == "clear": cur.clear()
            elif op[0] == "copy": cur = cur.copy()
        except Exception as e:
            raised = e
        if raised is not None and op[0] not in ("update", "ior") and repr(state(cur)) != repr(before):
            return "step %d %r raised %s but changed the data: %r -> %r" % (n, op, type(raised).__name__, before, state(cur))
        # the value just stored must be what the field's type produces
        if raised is None and op[0] in ("setitem", "setattr", "setdefault") and not was_there:
            f = p.get_field(op[1]) if op[0] != "setattr" else next((x for x in p.fields.values() if x.attname == op[1]), None)
            if f is not None and not f.property and f.type is not None:
                present = (f.name in cur) if dict_based else (f.attname in cur.__dict__)
                if present and f.get_on_error(opts) != "preserve":
                    v = dict.__getitem__(cur, f.name) if dict_based else cur.__dict__[f.attname]
                    dflt = f.get_default(opts, defer=None)
                    try:
                        from utype.utils.transform import type_transform
                        again = type_transform(v, f.type, utype.Options(no_explicit_cast=True, no_data_loss=True))
                        if repr(again) != repr(v) and not (not unprovided(dflt) and repr(v) == repr(dflt)):
                            return "step %d %r stored %r, which its own type converts to %r" % (n, op, v, again)
                    except Exception as e:
                        if not unprovided(dflt) and repr(v) == repr(dflt):
                            pass    # a default put in by the exclude policy (defaults are not validated)
                        else:
                            return "step %d %r stored %r, which its own type rejects (%s)" % (n, op, v, type(e).__name__)
        msg = check(cur, first)
        if msg:
            return "after step %d %r: %s" % (n, op, msg)
    return None


# ---- @property fields with dependants (implementation only: user functions are not in the model) ----
PROP_VARIANTS = [
    ("b: str", "b"), ("b: str = Field(no_output=True)", "b"), ("b: str = Field(alias='b_out')", "b_out"),
    ("b: Optional[str] = Field(default=None, no_output=lambda v: v is None)", "b"),
    ("b: str = Field(no_output='w')", "b"), ("b: str = Field(default='d', alias_from=['b1'])", "b"),
]


def property_case(rng):
    decl_b, key_b = rng.choice(PROP_VARIANTS)
    name = dyn.fresh("Pr")
    alias = rng.choice(["", "alias='combo_out', "])
    # the property itself may be hidden from the mapping depending on its (recomputed) value
    hide = rng.choice(["", "", "no_output=lambda v: v.startswith('40') or v.startswith('3'), "])
    src = ("class %s(Schema):\n    a: int\n    %s\n\n    @property\n    @Field(%s%sdependencies=['a', 'b'])\n"
           "    def combo(self) -> str:\n        return '%%s|%%s' %% (self.a, self.b)\n" % (name, decl_b, alias, hide))
    if rng.random() < 0.4:
        # a subclass that declares a dependency again (with a constraint, or just again): the inherited property must follow the
        # subclass's field
        sub = name + "Sub"
        redecl = rng.choice(["    a: int = Field(ge=-1000)\n", "    a: int\n", "    %s\n" % decl_b, "    a: int = Field(le=10 ** 6)\n    %s\n" % decl_b])
        src += "\nclass %s(%s):\n%s" % (sub, name, redecl)
        name = sub
    dyn.declare(src)
    ops = []
    for _ in range(rng.randint(1, 5)):
        tgt = rng.choice(["a", "b"])
        v = rng.choice([1, "2", 3.0, 40]) if tgt == "a" else rng.choice(["x", "yz", 5, None if "Optional" in decl_b else "w", ""])
        how = rng.choice(["item", "attr", "update", "setdefault"])
        key = tgt if tgt == "a" else rng.choice([key_b, "b"])
        ops.append((how, tgt, key, v))
    return dict(cls=name, src=src, out="combo_out" if alias else "combo", ops=ops, hide=bool(hide))


def property_oracle(case):
    warnings.simplefilter("ignore")
    cls = dyn.get(case["cls"])
    try:
        s = cls(a=1, b="q")
    except Exception:
        return None
    def expected():
        return "%s|%s" % (s.a, s.b)
    out = case["out"]
    if s[out] != expected():
        return "after construction the property holds %r, its function gives %r" % (s[out], expected())
    for n, (how, tgt, key, v) in enumerate(case["ops"]):
        try:
            if how == "item": s[key] = v
            elif how == "attr": setattr(s, tgt, v)
            elif how == "update": s.update({key: v})
            else: s.setdefault(key, v)
        except Exception:
            continue
        try:
            want = expected()
        except AttributeError:
            continue
        got_item = dict.get(s, out, "<absent>")
        got_attr = getattr(s, "combo", "<absent>")
        if case.get("hide") and (want.startswith("40") or want.startswith("3")):
            if got_item != "<absent>" or got_attr != want:
                return ("step %d %r: the recomputed property value %r is not output, but the mapping holds %r and the attribute reads %r"
                        % (n, (how, key, v), want, got_item, got_attr))
            continue
        if got_item != want or got_attr != want:
            return ("step %d %r: the property depends on the changed field but holds %r (mapping) / %r (attribute); "
                    "recomputed it is %r" % (n, (how, key, v), got_item, got_attr, want))
    return None


def addition_case(i_seed):
    """typed additions (Options(addition=<type>)): whatever mutator stores an unknown key, the stored value is what the
    constructor would have stored (the converted value); a value the type rejects changes nothing"""
    import utype
    from utype.utils.transform import type_transform
    from typing import List
    warnings.simplefilter("ignore")
    rng = random.Random(i_seed)
    t = dyn.fresh("Ad")
    ty = rng.choice(["int", "float", "List[int]", "PositiveInt"])
    src = "class %s(Schema):\n    __options__ = Options(addition=%s)\n    a: int = 0\n" % (t, ty)
    dyn.declare(src)
    K = dyn.get(t)
    T = K.__parser__.addition_type
    s = K()
    for n in range(rng.randint(1, 5)):
        key = rng.choice(["x", "y", "z"])
        v = rng.choice([1, "2", 3.0, "bad", None, ["4", 5], 0, -1, "7"])
        how = rng.choice(["item", "update", "setdefault", "ior"])
        before = dict(s)
        try:
            want = ("ok", type_transform(v, T))
        except Exception:
            want = ("bad",)
        present = key in s
        try:
            if how == "item": s[key] = v
            elif how == "update": s.update({key: v})
            elif how == "setdefault": s.setdefault(key, v)
            else: s.__ior__({key: v})
            raised = False
        except Exception:
            raised = True
        if how == "setdefault" and present:
            if dict(s) != before:
                return "%s\nstep %d setdefault(%r, %r) on a present key changed the data: %r -> %r" % (src, n, key, v, before, dict(s))
            continue
        if want[0] == "bad":
            if not raised or dict(s) != before:
                return "%s\nstep %d %s %r=%r: the addition type rejects the value, but %s and the data went %r -> %r" % (
                    src, n, how, key, v, "nothing was raised" if not raised else "it raised", before, dict(s))
        else:
            got = dict.get(s, key, "<absent>")
            if raised or repr(got) != repr(want[1]):
                return "%s\nstep %d %s %r=%r: stored %r, the constructor would store %r" % (src, n, how, key, v, "<raised>" if raised else got, want[1])
    return ("ok", ty)


def main(tier, seed):
    warnings.simplefilter("ignore")
    res = core.Result(PID, tier, seed)
    core.prove(res, PID)
    rng = random.Random(seed * 139 + 7)
    ncls, per = (220, 10) if tier == "quick" else (800, 12)
    cases, srcs = gen_cases(rng, ncls, per)
    mism, alias = run_suite(res, cases, "mutations")
    outs = core.pool_map(invariant_oracle, cases)
    bad = [(c, o) for c, o in zip(cases, outs) if isinstance(o, str)]
    res.add_suite("invariant-oracle", len(cases), len({repr((c["cls"], c["data"], c["ops"])) for c in cases}),
                  [dict(src=srcs[cases[0]["cls"]], data=repr(cases[0]["data"]), ops=repr(cases[0]["ops"]))],
                  "the same sequences on the implementation alone; after construction and after every step: required fields "
                  "present, immutable fields unchanged, no `unprovided` marker stored, a value just assigned is a fixed point of its "
                  "field's type under strict options, key view and attribute view agree, a raising single-key operation leaves "
                  "the data as it was; copies do not share state with their original",
                  dict(failures=len(bad), aliasing_failures=len(alias)))
    for c, o in bad[:3]:
        res.violations.append(dict(case=repr(dict(src=srcs[c["cls"]], data=c["data"], ops=c["ops"])), observed=o, what=o))
    for c, o in alias[:2]:
        res.violations.append(dict(case=repr(dict(src=srcs[c["cls"]], data=c["data"], ops=c["ops"])), observed=o, what=o))
    pcases = [property_case(rng) for _ in range(300 if tier == "quick" else 4000)]
    pouts = core.pool_map(property_oracle, pcases)
    pbad = [(c, o) for c, o in zip(pcases, pouts) if isinstance(o, str)]
    res.add_suite("dependant-properties", len(pcases), len({repr((c["src"].split("\n", 1)[1], c["ops"])) for c in pcases}),
                  [dict(src=pcases[0]["src"], ops=repr(pcases[0]["ops"]))],
                  "a Schema with a @property field depending on two fields (plain, aliased, no_output, no_output by value or mode); "
                  "after every successful assignment (item, attribute, update, setdefault) the property in the mapping and by attribute "
                  "must equal its function applied to the current field values",
                  dict(failures=len(pbad)))
    for c, o in pbad[:2]:
        res.violations.append(dict(case=repr(dict(src=c["src"], ops=c["ops"], kind="property", out=c["out"])), observed=o, what=o))
    if not res.violations and mism:
        for c, o in mism[:3]:
            res.violations.append(dict(case=repr(dict(src=srcs[c["cls"]], data=c["data"], ops=c["ops"])), observed=repr(o)[:800],
                                       what="the implementation departs from the instance model that is proved to keep the invariant"))
    aouts = core.pool_map(addition_case, [seed * 1000211 + i for i in range(1500 if tier == "quick" else 25000)])
    abad = [o for o in aouts if isinstance(o, str)]
    res.add_suite("typed-additions", len(aouts), len(aouts), ["seeded: Schema with Options(addition=int / float / List[int] / PositiveInt)"],
                  "unknown keys stored through item assignment, update, setdefault and |= on a class with a typed addition: the stored "
                  "value is the converted one (what the constructor stores), a rejected value changes nothing", dict(failures=len(abad)))
    for o in abad[:3]:
        res.violations.append(dict(case=repr(dict(kind="typed-addition")), observed=o, what=o))
    return core.finish(res, "make -C coq Props/C07.vo && coqc (Print Assumptions audit)", "see suites", search=None,
                       level_note="the invariant theorem is about Model/Schema.v (tied by the mutations suite); @property fields and "
                                  "their dependants, runtime options different from the class options, typed additions and plain "
                                  "(non-field) attribute assignment are not modelled; aliasing between an instance and its copy is "
                                  "judged on the implementation (values of the model are immutable terms)")


def replay(path):
    import json
    d = json.loads(open(path).read())
    if "case" not in d:
        print(json.dumps(d, indent=1)[:4000])
        r = core.build(["Props/%s.vo" % PID])
        return 0 if r["ok"] else 1
    c = eval(d["case"], {"inf": float("inf"), "nan": float("nan")})
    if c.get("kind") == "property":
        name = dyn.fresh("Rp")
        dyn.declare(re.sub(r"class \w+\(", "class %s(" % name, c["src"], 1))
        msg = property_oracle(dict(cls=name, out=c["out"], ops=c["ops"]))
        print("class:\n" + c["src"], "\noperations:", c["ops"], "\n->", msg or "property holds on this case")
        return 1 if msg else 0
    name = dyn.fresh("Rp")
    dyn.declare(re.sub(r"class \w+\(", "class %s(" % name, c["src"], 1))
    case = dict(cls=name, data=c["data"], ops=c["ops"])
    msg = invariant_oracle(case)
    res = core.Result(PID, "quick", 0)
    mism, alias = run_suite(res, [case], "replay")
    print("class:\n" + c["src"], "\ninput:", c["data"], "\noperations:", c["ops"])
    print("invariant:", msg or "holds after every step")
    print("model:", "differs from the implementation" if mism else "agrees with the implementation", alias or "")
    return 1 if (msg or mism or alias) else 0
