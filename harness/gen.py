"""Shared value generators (all randomness comes from the random.Random passed in)."""
from decimal import Decimal
import math

INTS = [0, 1, -1, 2, 3, 5, 7, 9, 10, 11, 12, 13, 99, 100, 101, 255, 999, 1000, -5, -10, 2**53, 2**53 + 1, 10**20]
FLOATS = [0.0, 1.0, -1.0, 0.5, 1.5, 2.5, 3.0, 3.25, 99.5, 100.0, 0.25, 0.125, 1e16, 123456.0, -2.75,
          float("inf"), float("-inf"), float("nan"), 2.0**60, 1e300]
DECS = ["0", "1", "-1", "1.5", "1.50", "2.5", "99.95", "99.5", "100", "100.0", "0.001", "0.00", "1E+3", "12.345",
        "999.5", "123.456", "-0.5", "1E-7", "7", "3.0", "NaN", "Infinity", "-Infinity", "0.10", "10", "12", "1.25", "0.5"]
STRS = ["", "a", "ab", "abc", "abcd", "hello", "1", "12", "-3", "1.5", " 7 ", "1e3", "0", "true", "false", "yes", "no",
        "null", "none", "inf", "nan", "-inf", "Infinity", "a,b", "1,2,3", "[1, 2]", "{}", "x=1", "A", "Ab", "T", "on", "off",
        "f", "t", "y", "0.0", "1.0", "+5", "1e", ".5", "5.", "--1", "1_0"]


def near(rng, b):
    """values at and around a bound"""
    if isinstance(b, bool):
        return rng.choice([True, False, 0, 1])
    if isinstance(b, int):
        return rng.choice([b, b - 1, b + 1, b - 2, b + 2, float(b), b + 0.5, b - 0.5, Decimal(b), Decimal(b) + Decimal("0.1")])
    if isinstance(b, float):
        if math.isnan(b) or math.isinf(b):
            return b
        return rng.choice([b, math.nextafter(b, math.inf), math.nextafter(b, -math.inf), b + 1, b - 1, int(b), Decimal(b)])
    if isinstance(b, Decimal):
        if not b.is_finite():
            return b
        return rng.choice([b, b + Decimal("0.1"), b - Decimal("0.1"), b + 1, b - 1, int(b), b.normalize()])
    return b


def number(rng):
    k = rng.random()
    if k < 0.4:
        return rng.choice(INTS) if rng.random() < 0.6 else rng.randint(-1000, 1000)
    if k < 0.7:
        return rng.choice(FLOATS) if rng.random() < 0.6 else rng.randint(-4000, 4000) / rng.choice([1, 2, 4, 8])
    return Decimal(rng.choice(DECS)) if rng.random() < 0.6 else Decimal(rng.randint(-99999, 99999)).scaleb(-rng.randint(0, 4))


def scalar(rng):
    k = rng.random()
    if k < 0.45:
        return number(rng)
    if k < 0.75:
        return rng.choice(STRS)
    if k < 0.85:
        return rng.choice([True, False])
    if k < 0.92:
        return None
    return rng.choice([b"abc", b"1", b""])


def short_list(rng, elem=None, maxlen=4):
    elem = elem or scalar
    return [elem(rng) for _ in range(rng.randint(0, maxlen))]


def value(rng, depth=2):
    k = rng.random()
    if depth <= 0 or k < 0.6:
        return scalar(rng)
    if k < 0.75:
        return short_list(rng, lambda r: value(r, depth - 1))
    if k < 0.82:
        return tuple(short_list(rng, lambda r: value(r, depth - 1)))
    if k < 0.88:
        xs = [x for x in short_list(rng) if not isinstance(x, float) or not math.isnan(x)]
        try:
            return set(xs)
        except TypeError:
            return xs
    return {rng.choice(["a", "b", "c", "k", 1, 2]): value(rng, depth - 1) for _ in range(rng.randint(0, 3))}
