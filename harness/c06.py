"""C06 — the result does not depend on the field-lookup strategy."""
import random, re, warnings
from . import core, decl, dyn, fieldgen, dcsuite, parsesuite, findings

PID = "C06"


def declare_pair(rng, small=False, first_feats=None):
    """the same random class twice, with data_first_search=True and =False"""
    for _ in range(30):
        name, src, fields, okw = fieldgen.small_class(rng, first_feats) if small else fieldgen.rand_class(rng)
        okw = {k: v for k, v in okw.items() if k != "data_first_search"}
        names = []
        try:
            for dfs in (True, False):
                n2 = dyn.fresh("St")
                kw = dict(okw, data_first_search=dfs)
                lines = [l for l in src.rstrip("\n").split("\n") if "__options__" not in l]
                lines[0] = re.sub(r"class \w+\(", "class %s(" % n2, lines[0], 1)
                lines.insert(1, "    __options__ = Options(%s)" % ", ".join("%s=%r" % kv for kv in kw.items()))
                dyn.declare("\n".join(lines) + "\n")
                names.append(n2)
        except Exception:
            continue
        return names, src, fields, okw
    raise RuntimeError("could not declare a pair of classes")


SAME_BUT_DIFFERENT = [(1, True), (1, 1.0), (0, False), (True, 1.0), (2, 2.0)]


def rand_input(rng, fields):
    d = fieldgen.rand_input(rng, fields)
    if rng.random() < 0.12:
        # a field under two accepted names with values that are == but not the same object kind
        f = rng.choice(fields)
        keys = list(f["aliases"]) + ([f["alias"]] if "alias" in f else [])
        if len(keys) > 1:
            k1, k2 = rng.sample(keys, 2)
            a, b = rng.choice(SAME_BUT_DIFFERENT)
            d.pop(k1, None); d.pop(k2, None)
            items = list(d.items()) + [(k1, a), (k2, b)]
            rng.shuffle(items)
            d = dict(items)
    return d


def groups(clsname, data):
    """input keys by the field they feed (as the parser resolves them)"""
    p = dyn.get(clsname).__parser__
    g = {}
    for k in data:
        f = p.get_field(str(k))
        if f is not None:
            g.setdefault(f.name, []).append(k)
    return g


def m_ignore_conflicts(case):
    if not case["okw"].get("ignore_alias_conflicts"):
        return False
    return any(len(ks) > 1 for ks in groups(case["names"][0], case["data"]).values())


def m_equal_not_identical(case):
    for ks in groups(case["names"][0], case["data"]).values():
        vs = [case["data"][k] for k in ks]
        for i in range(len(vs)):
            for j in range(i + 1, len(vs)):
                a, b = vs[i], vs[j]
                try:
                    eq = (a == b)
                except Exception:
                    eq = False
                if eq and (type(a) is not type(b) or repr(a) != repr(b)):
                    return True
                if a != a or b != b:
                    return True
    return False


findings.MATCHERS["dc-ignore-alias-conflicts"] = m_ignore_conflicts
findings.MATCHERS["dc-equal-not-identical"] = m_equal_not_identical


def run_one(clsname, data):
    import utype
    from utype.utils import exceptions as exc
    warnings.simplefilter("ignore")
    cls = dyn.get(clsname)
    try:
        r = cls.__from__(data)
    except exc.ParseError as e:
        return ("parse", type(e).__name__)
    except Exception as e:
        return ("other", type(e).__name__)
    if isinstance(r, dict):
        return ("ok", {k: v for k, v in dict.items(r)})
    return ("ok", {k: v for k, v in r.__dict__.items() if not k.startswith("__")})


def same_value(a, b):
    if type(a) is not type(b):
        return False
    if isinstance(a, float) and a != a and b != b:
        return True
    if isinstance(a, (list, tuple)):
        return len(a) == len(b) and all(same_value(x, y) for x, y in zip(a, b))
    if isinstance(a, dict):
        return set(a) == set(b) and all(same_value(a[k], b[k]) for k in a)
    return a == b


def oracle(case):
    """the property on the implementation: both strategies, same input"""
    ra = run_one(case["names"][0], case["data"])
    rb = run_one(case["names"][1], case["data"])
    if ra[0] != rb[0]:
        return "data-first: %r, field-first: %r" % (ra, rb)
    if ra[0] == "ok" and not same_value(ra[1], rb[1]):
        return "data-first: %r, field-first: %r" % (ra[1], rb[1])
    if ra[0] == "other":
        return "not a ParseError: %r / %r" % (ra, rb)
    return None


EXPLICIT = [
    # an excluded first value under one alias, another value under another alias (both strategies must see the conflict)
    (dict(), "    x: int = Field(alias_from=['x1', 'x2'], on_error='exclude', required=False)\n    y: int = 0\n",
     [{"x1": "abc", "x2": 3}, {"x": "abc", "x2": 3}, {"x2": 3, "x1": "abc"}, {"x1": 3, "x2": 3}, {"x1": "abc", "x2": "abc"}, {"x": 1, "x1": "abc", "y": 2}]),
    (dict(invalid_values="exclude"), "    x: int = Field(alias_from=['x1', 'x2'], required=False)\n    y: int = 0\n",
     [{"x1": "abc", "x2": 3}, {"x2": 3, "x1": "abc"}, {"x": "abc", "x1": 4, "y": "1"}]),
    # the same case-insensitive key in several letter cases, conflicts ignored or not
    (dict(ignore_alias_conflicts=True), "    name: int = Field(case_insensitive=True)\n    tag: str = Field(case_insensitive=True, alias_from=['label'], default='')\n",
     [{"Name": 1, "NAME": 2}, {"NAME": 2, "Name": 1}, {"name": 1, "Label": "a", "LABEL": "b"}, {"name": 1, "LABEL": "b", "Label": "a"}, {"Name": 1, "name": 1}]),
    (dict(), "    name: int = Field(case_insensitive=True)\n    tag: str = Field(case_insensitive=True, alias_from=['label'], default='')\n",
     [{"Name": 1, "NAME": 2}, {"name": 1, "Label": "a", "LABEL": "b"}, {"Name": 1, "name": 1}, {"NAME": "x", "name": 1}]),
    (dict(case_insensitive=True, ignore_alias_conflicts=True), "    a: int = Field(alias_from=['a1'])\n    b: str = 'd'\n",
     [{"A": 1, "a": 2}, {"a": 2, "A": 1}, {"A1": 1, "a1": 2, "B": "x", "b": "y"}, {"a": 1, "A1": 2}]),
]


def explicit_cases():
    """hand-written class pairs around repeated keys (aliases after an excluded value, letter-case variants with and without
    ignored conflicts): the random generator rarely combines these features"""
    out = []
    for okw, body, datas in EXPLICIT:
        names = []
        for dfs in (True, False):
            n2 = dyn.fresh("Sx")
            kw = dict(okw, data_first_search=dfs)
            dyn.declare("class %s(Schema):\n    __options__ = Options(%s)\n%s" % (n2, ", ".join("%s=%r" % kv for kv in kw.items()), body))
            names.append(n2)
        src = "class K(Schema):\n    __options__ = Options(%s)\n%s" % (", ".join("%s=%r" % kv for kv in okw.items()), body)
        for d in datas:
            out.append(dict(names=names, src=src, okw=dict(okw), fields=[], data=d, explicit=True))
    return out


def gen_cases(rng, nclasses, per):
    cases = explicit_cases()
    for _ in range(nclasses):
        names, src, fields, okw = declare_pair(rng)
        for _ in range(per):
            cases.append(dict(names=names, src=src, okw=okw, fields=fields, data=rand_input(rng, fields)))
    pairs = fieldgen.feature_pairs()
    rng.shuffle(pairs)
    for feats in pairs * (2 if nclasses < 1000 else 8):
        try:
            names, src, fields, okw = declare_pair(rng, small=True, first_feats=feats)
        except RuntimeError:
            continue
        for data in fieldgen.state_inputs(rng, fields, limit=30):
            cases.append(dict(names=names, src=src, okw=okw, fields=fields, data=data))
    return cases


# ---- known findings ----
def finding_ignore_conflicts():
    dyn.declare("class KfIgA(Schema):\n    __options__ = Options(ignore_alias_conflicts=True, data_first_search=True)\n"
                "    a: int = Field(alias_from=['a1'])\n"
                "class KfIgB(Schema):\n    __options__ = Options(ignore_alias_conflicts=True, data_first_search=False)\n"
                "    a: int = Field(alias_from=['a1'])\n")
    d = {"a": 1, "a1": 2}
    return run_one("KfIgA", d) != run_one("KfIgB", d)


def finding_equal_not_identical():
    dyn.declare("class KfEqA(Schema):\n    __options__ = Options(data_first_search=True)\n    a: str = Field(alias_from=['a1'])\n"
                "class KfEqB(Schema):\n    __options__ = Options(data_first_search=False)\n    a: str = Field(alias_from=['a1'])\n")
    d = {"a1": 1, "a": True}
    return run_one("KfEqA", d) != run_one("KfEqB", d)


HYP_PRELUDE = """
Definition nodupk (d : sdata) : bool := nodupb (map fst d).
(* 0: hypotheses hold and the model's strategies agree; 1: declaration not well-formed; 2: hypotheses hold, strategies differ;
   3: conflicts ignored; 4: values not coherent; 5: not a string-keyed mapping; 6: hypotheses fail and the strategies differ *)
Definition agree (tr : options -> Z -> ty -> pyval -> M pyval) (C : cdecl) (o : options) (data : sdata) : bool :=
  match finish (data_first_parse tr C o 1 data), finish (field_first_parse tr C o 1 data) with
  | Ok a, Ok b => forallb (fun x => match assoc x a, assoc x b with
                                    | Some u, Some w => val_eqb u w | None, None => true | _, _ => false end)
                          (map fst a ++ map fst b)
  | Ok _, _ | _, Ok _ => false
  | _, _ => true
  end.
Definition hyp (k : nat * pyval) : nat :=
  let '(c, v) := k in
  match DD c, v with
  | Some C, PDict kvs =>
      match str_keys kvs with
      | Some data =>
          let o := nested_options C default_options in
          let tr := transform RE DD 60 in
          let ag := agree tr C o data in
          if negb (wf_cdecl C) then 1%nat
          else if o_ignore_alias_conflicts o then (if ag then 3 else 6)%nat
          else if negb (coherentb C data && nodupk data) then (if ag then 4 else 6)%nat
          else if ag then 0%nat else 2%nat
      | None => 5%nat
      end
  | _, _ => 5%nat
  end.
"""


def hypotheses_suite(res, cases, per=250):
    """how many generated cases meet the hypotheses of C06_strategies_agree, evaluated in Coq on the reflected classes"""
    world = decl.World()
    world.encoder = lambda: dcsuite.InstEncoder(classes=dict(world.classes), objects=world.objects)
    lines, strs = [], set()
    for c in cases:
        try:
            cid = world.cid(dyn.get(c["names"][0]))
            enc = world.encoder()
            lines.append("(%d%%nat, %s)" % (cid, enc.val(c["data"])))
            parsesuite.strings_in(c["data"], strs)
        except (core.Unencodable, decl.Unreflectable):
            pass
    table = parsesuite.regex_oracle([("[0-9]+", s) for s in strs])
    if not core.build(["Props/C06.vo"])["ok"]:
        return
    shards = ["Definition RE := %s.\nDefinition DD : decls := %s.\n%s\nDefinition cases : list (nat * pyval) := [\n%s\n].\n"
              "Goal True. idtac \"HYP\". exact I. Qed.\nEval vm_compute in (map hyp cases).\n"
              % (table, world.decls_term_for(lines[s:s + per]), HYP_PRELUDE, ";\n".join(lines[s:s + per])) for s in range(0, len(lines), per)]
    hist = {}
    for rc, out in core.run_sharded("c06hyp", ["Parse", "Verdict", "FieldSpec", "FieldProofs"], shards):
        vals = core.parse_nat_list(out, "HYP") if rc == 0 else None
        if vals is None:
            res.broken.append(dict(kind="correspondence", name="hypotheses (coqc failed)", detail=out[-1500:]))
            continue
        for v in vals:
            hist[v] = hist.get(v, 0) + 1
    names = {0: "hypotheses_hold_and_agree", 1: "declaration_not_wf", 2: "hypotheses_hold_but_differ", 3: "conflicts_ignored",
             4: "values_not_coherent", 5: "not_a_str_mapping", 6: "outside_hypotheses_and_differ"}
    res.add_suite("theorem-hypotheses", sum(hist.values()), hist.get(0, 0), [lines[0] if lines else ""],
                  "wf_cdecl / coherentb / distinct keys evaluated in Coq on every reflected class and input; the model's two "
                  "strategies compared on the same input", {names[k]: v for k, v in hist.items()})
    if hist.get(1):
        res.broken.append(dict(kind="correspondence", name="wf_cdecl",
                               detail="%d reflected declarations do not satisfy wf_cdecl: the theorems do not apply to them" % hist[1]))
    if hist.get(2):
        res.broken.append(dict(kind="proof", name="C06_strategies_agree", detail="model strategies differ under the hypotheses"))


def fn_strategy_case(i_seed):
    """parsed functions (their keyword arguments go through the same two lookup strategies, with results keyed by parameter
    name): aliases, alias_from, defaults, dependencies, no_input, case-insensitive parameters; the same call under
    data_first_search True and False"""
    import utype
    from utype.utils import exceptions as exc
    warnings.simplefilter("ignore")
    rng = random.Random(i_seed)
    t = dyn.fresh("Fs")
    params = ["card", "address", "note"][:rng.randint(2, 3)]
    specs = {}
    for pn in params:
        kw = ["default=%s" % rng.choice(["''", "'d'"])] if rng.random() < 0.7 else ["required=False"] if rng.random() < 0.5 else []
        alias = pn + "_in" if rng.random() < 0.4 else None
        af = [pn + "2"] if rng.random() < 0.3 else []
        if alias: kw.append("alias=%r" % alias)
        if af: kw.append("alias_from=%r" % af)
        if rng.random() < 0.15: kw.append("case_insensitive=True")
        if rng.random() < 0.1: kw.append("no_input=True")
        specs[pn] = dict(kw=kw, alias=alias, af=af)
    for pn in params:
        if rng.random() < 0.4:
            other = rng.choice([x for x in params if x != pn])
            dep = rng.choice([other] + ([specs[other]["alias"]] if specs[other]["alias"] else []))
            specs[pn]["kw"].append("dependencies=[%r]" % dep)
    names = []
    extra = rng.choice(["", "", ", on_error='exclude'"])
    for dfs in (True, False):
        nm = "%s%d" % (t, int(dfs))
        sig = ", ".join("%s: str = Param(%s)" % (pn, ", ".join(specs[pn]["kw"])) if specs[pn]["kw"] else "%s: str" % pn for pn in params)
        src = "@utype.parse(options=Options(data_first_search=%r%s))\ndef %s(*, %s):\n    return (%s)\n" % (
            dfs, rng.choice(["", ", addition=False", ", ignore_required=True"]) if dfs else "", nm, sig, ", ".join(params) + ",")
        names.append((nm, src))
    # the same option set for both (chosen once)
    opt = rng.choice(["", ", addition=False", ", ignore_required=True", ", case_insensitive=True"])
    srcs = []
    for dfs in (True, False):
        nm = "%s%d" % (t, int(dfs))
        sig = ", ".join("%s: str = Param(%s)" % (pn, ", ".join(specs[pn]["kw"])) if specs[pn]["kw"] else "%s: str" % pn for pn in params)
        src = "@utype.parse(options=Options(data_first_search=%r%s))\ndef %s(*, %s):\n    return (%s)\n" % (dfs, opt, nm, sig, ", ".join(params) + ",")
        try:
            dyn.declare(src)
        except Exception:
            return None
        srcs.append((nm, src))
    kwargs = {}
    for pn in params:
        if rng.random() < 0.7:
            keys = [pn] + ([specs[pn]["alias"]] if specs[pn]["alias"] else []) + specs[pn]["af"]
            k = rng.choice(keys)
            if rng.random() < 0.15:
                k = k.upper()
            kwargs[k] = rng.choice(["v", "w", 5])
            if rng.random() < 0.15 and len(keys) > 1:
                kwargs[rng.choice([x for x in keys if x != k])] = rng.choice(["v", "z"])
    if rng.random() < 0.15:
        kwargs["zz"] = "extra"
    outs = []
    for nm, src in srcs:
        try:
            outs.append(("ok", dyn.get(nm)(**kwargs)))
        except exc.ParseError as e:
            outs.append(("parse", type(e).__name__))
        except TypeError as e:
            outs.append(("typeerror", str(e).replace(nm, "f")[:80]))
        except Exception as e:
            outs.append(("other", type(e).__name__))
    # same rule as for data classes: equal values when both succeed, otherwise a failure of the same kind (a ParseError in
    # both; which of several applicable errors is met first is not compared)
    if outs[0][0] != outs[1][0] or (outs[0][0] == "ok" and repr(outs[0]) != repr(outs[1])):
        return "%s\ncall(**%r): data-first gives %r, field-first %r" % (srcs[0][1].replace(srcs[0][0], "f"), kwargs, outs[0], outs[1])
    return ("ok", outs[0][0])


def fn_strategy_suite(res, tier, seed):
    n = 2500 if tier == "quick" else 40000
    outs = core.pool_map(fn_strategy_case, [seed * 1000199 + i for i in range(n)])
    bad = [o for o in outs if isinstance(o, str)]
    agg = {}
    for o in outs:
        if isinstance(o, tuple):
            agg[o[1]] = agg.get(o[1], 0) + 1
    res.add_suite("function-strategies", n, n, ["seeded: keyword-only str parameters with alias / alias_from / default / dependencies / no_input / case_insensitive"],
                  "parsed functions declared twice, with data_first_search True and False (and one shared extra option), called with the "
                  "same keywords (names, aliases, alternative names, other letter case, two names of one parameter, an unknown "
                  "keyword): same result or same error", dict(failures=len(bad), outcomes=agg))
    for o in bad[:3]:
        if findings.matches_any(PID, dict(kind="fn-strategy", text=o)) is None:
            res.violations.append(dict(case=repr(dict(kind="fn-strategy")), observed=o, what=o))


def main(tier, seed):
    warnings.simplefilter("ignore")
    res = core.Result(PID, tier, seed)
    core.prove(res, PID)
    findings.replay_all(res, PID, {"C06-ignore-conflicts-winner": finding_ignore_conflicts,
                                   "C06-equal-not-identical": finding_equal_not_identical})
    rng = random.Random(seed * 131 + 6)
    ncls, per = (90, 8) if tier == "quick" else (400, 10)
    cases = gen_cases(rng, ncls, per)
    # model against implementation, once per strategy
    mcases = []
    sample = cases if tier != "quick" else [c for i, c in enumerate(cases) if i % 3 == 0 or c.get("explicit")]
    for c in sample:
        mcases.append(dict(cls=c["names"][0], ropts=None, data=c["data"]))
        mcases.append(dict(cls=c["names"][1], ropts=None, data=c["data"]))
    dcsuite.run_suite(res, mcases, "fields-both-strategies",
                      rule="random data classes over the Field parameters and class Options, declared once per strategy; inputs over "
                           "names, aliases, letter-case variants, repeated names with equal / different / ==-but-different values, extra keys")
    hypotheses_suite(res, sample)
    # the property on the implementation
    outs = core.pool_map(oracle, cases)
    bad, known = [], {}
    for c, o in zip(cases, outs):
        if isinstance(o, str):
            fid = findings.matches_any(PID, c)
            if fid:
                known[fid] = known.get(fid, 0) + 1
            else:
                bad.append((c, o))
    multi = sum(1 for c in cases if any(len(ks) > 1 for ks in groups(c["names"][0], c["data"]).values()))
    res.add_suite("strategy-oracle", len(cases), len({repr((c["src"], c["okw"], c["data"])) for c in cases}),
                  [dict(src=cases[0]["src"], data=repr(cases[0]["data"]))],
                  "each class declared with data_first_search=True and =False, the same input given to both; outcomes compared "
                  "(kind of failure, or the parsed data value by value with types)",
                  dict(differences_not_listed=len(bad), differences_matching_known_findings=known,
                       inputs_with_a_field_given_twice=multi,
                       classes=ncls))
    for c, o in bad[:3]:
        res.violations.append(dict(case=repr(dict(src=c["src"], okw=c["okw"], data=c["data"])), observed=o,
                                   what="the two lookup strategies disagree: " + o))
    fn_strategy_suite(res, tier, seed)
    return core.finish(res, "make -C coq Props/C06.vo && coqc (Print Assumptions audit)", "see suites", search=None,
                       level_note="C06_strategies_agree is about data_first_parse / field_first_parse of Model/Parse.v (tied by the "
                                  "fields-both-strategies suite) for declarations satisfying wf_cdecl and inputs whose repeated values are "
                                  "coherent (== is identity), conflicts not ignored; the two excluded situations are open known findings; "
                                  "function parsers (excluded_keys, *args) are not modelled")


def replay(path):
    import json
    d = json.loads(open(path).read())
    if "case" not in d:
        print(json.dumps(d, indent=1)[:4000])
        r = core.build(["Props/%s.vo" % PID])
        return 0 if r["ok"] else 1
    c = eval(d["case"], {"inf": float("inf"), "nan": float("nan")})
    names = []
    for dfs in (True, False):
        n2 = dyn.fresh("Rp")
        kw = dict(c["okw"], data_first_search=dfs)
        lines = [l for l in c["src"].rstrip("\n").split("\n") if "__options__" not in l]
        lines[0] = re.sub(r"class \w+\(", "class %s(" % n2, lines[0], 1)
        lines.insert(1, "    __options__ = Options(%s)" % ", ".join("%s=%r" % kv for kv in kw.items()))
        dyn.declare("\n".join(lines) + "\n")
        names.append(n2)
    msg = oracle(dict(names=names, data=c["data"]))
    print("case:", c, "\n->", msg or "property holds on this case")
    return 1 if msg else 0
