"""Random data-class declarations exercising the Field parameters and class Options, and inputs over the
declared names, aliases, case variants and extra keys."""
import random
from . import dyn

TYPES = ["int", "str", "PositiveInt", "List[int]", "Optional[int]", "bool"]
GOODV = {"int": [1, "2", 3.0], "str": ["a", "bc", 5], "PositiveInt": [1, "5"], "List[int]": [[1, "2"], []],
         "Optional[int]": [None, 4, "6"], "bool": [True, "false", 0]}
BADV = {"int": ["x"], "PositiveInt": [0, "x"], "List[int]": [["x"]], "Optional[int]": ["x"]}
DEFAULTS = {"int": ["7", "0"], "str": ["'d'", "''"], "PositiveInt": ["3"], "List[int]": ["Field(default_factory=list)"],
            "Optional[int]": ["None", "9"], "bool": ["False", "True"]}


THEMES = ["mixed", "mixed", "deps-exclude", "alias-ci", "modes"]


def rand_class(rng, allow_options=True, theme=None):
    theme = theme or rng.choice(THEMES)
    boost = lambda p, *themes: (0.6 if theme in themes else p)
    name = dyn.fresh("Fc")
    base = rng.choice(["Schema", "Schema", "DataClass"])
    n = rng.randint(1, 4)
    fields, lines = [], ["class %s(%s):" % (name, base)]
    okw = {}
    if allow_options:
        if rng.random() < 0.15: okw["ignore_required"] = True
        if rng.random() < 0.1: okw["no_default"] = True
        elif rng.random() < 0.08: okw["force_default"] = rng.choice([None, 0])
        if rng.random() < 0.1: okw["defer_default"] = True
        if rng.random() < 0.15: okw["ignore_alias_conflicts"] = True
        if rng.random() < 0.2: okw["addition"] = rng.choice([True, False])
        if rng.random() < 0.1: okw["max_params"] = rng.choice([1, 2, 3])
        if rng.random() < 0.1: okw["min_params"] = rng.choice([1, 2])
        if rng.random() < boost(0.15, "modes"): okw["mode"] = rng.choice(["r", "w", "a"])
        if rng.random() < 0.12: okw["case_insensitive"] = True
        if rng.random() < 0.3: okw["data_first_search"] = rng.choice([True, False])
        if rng.random() < 0.15: okw["collect_errors"] = True
        if rng.random() < boost(0.2, "deps-exclude") * 0.7: okw["invalid_values"] = rng.choice(["exclude", "exclude", "preserve"])
    if okw:
        lines.append("    __options__ = Options(%s)" % ", ".join("%s=%r" % kv for kv in okw.items()))
    names = ["a", "b", "c", "d"][:n]
    for fname in names:
        t = rng.choice(TYPES)
        fkw = []
        meta = dict(attname=fname, type=t, aliases=[fname], ci=False, theme=theme)
        r = rng.random()
        default = None
        if r < (0.25 if theme == "deps-exclude" else 0.45):
            default = rng.choice(DEFAULTS[t])
        if rng.random() < boost(0.25, "alias-ci"):
            al = fname + "_out"
            fkw.append("alias=%r" % al)
            meta["alias"] = al
        if rng.random() < boost(0.25, "alias-ci"):
            af = rng.sample([fname + "1", fname + "2", fname.upper() + "x"], rng.randint(1, 2))
            fkw.append("alias_from=%r" % af)
            meta["aliases"] += af
        if rng.random() < boost(0.12, "alias-ci") * 0.7:
            fkw.append("case_insensitive=True")
            meta["ci"] = True
        if rng.random() < boost(0.1, "modes") * 0.6:
            fkw.append("no_input=%r" % rng.choice([True, "r", "w", "a"]))
        if rng.random() < boost(0.1, "modes") * 0.6:
            fkw.append("no_output=%r" % rng.choice([True, "r", "w"]))
        if rng.random() < boost(0.12, "modes") * 0.7:
            fkw.append(rng.choice(["mode='r'", "mode='w'", "mode='rw'", "readonly=True", "writeonly=True"]))
        if rng.random() < boost(0.2, "deps-exclude", "modes") and default is None:
            fkw.append("required=%r" % (False if theme == "deps-exclude" else rng.choice([False, False, "r", "w", "a"])))
        if rng.random() < 0.08 and default is not None:
            fkw.append("defer_default=True")
        if rng.random() < boost(0.22, "deps-exclude") and len(names) > 1:
            dep = rng.choice([x for x in names if x != fname])
            fkw.append("dependencies=[%r]" % dep)
        if rng.random() < boost(0.25, "deps-exclude") and t in BADV and (default is not None or "required=False" in " ".join(fkw)):
            fkw.append("on_error=%r" % rng.choice(["exclude", "exclude", "preserve"]))
        if default is not None and default.startswith("Field("):
            fkw.insert(0, "default_factory=list")
            default = None
        if default is not None:
            fkw.insert(0, "default=%s" % default)
        lines.append("    %s: %s%s" % (fname, t, (" = Field(%s)" % ", ".join(fkw)) if fkw else ""))
        fields.append(meta)
    src = "\n".join(lines) + "\n"
    return name, src, fields, okw


def declare(rng, tries=20):
    for _ in range(tries):
        name, src, fields, okw = rand_class(rng)
        try:
            dyn.declare(src)
            return name, src, fields, okw
        except Exception:
            continue
    raise RuntimeError("could not declare a class")


def rand_input(rng, fields):
    data = {}
    for f in fields:
        r = rng.random()
        if r < (0.35 if f.get("theme") == "deps-exclude" else 0.15):
            continue
        keys = list(f["aliases"]) + ([f["alias"]] if "alias" in f else [])
        k = rng.choice(keys)
        if rng.random() < 0.25:
            k = rng.choice([k.upper(), k.lower(), k.capitalize()])
        t = f["type"]
        v = rng.choice(BADV[t]) if (t in BADV and rng.random() < (0.5 if f.get("theme") == "deps-exclude" else 0.3)) else rng.choice(GOODV[t])
        data[k] = v
        if rng.random() < 0.2 and len(keys) > 1:       # the same field under a second accepted name
            k2 = rng.choice([x for x in keys if x != k])
            data[k2] = v if rng.random() < 0.6 else rng.choice(GOODV[t])
    if rng.random() < 0.25:
        data[rng.choice(["zz", "extra", "A"])] = rng.choice([1, "x"])
    items = list(data.items())
    rng.shuffle(items)
    return dict(items)


# ---- systematic small classes: a few features per field, every combination of per-field input states ----
FEATURES = ["default", "optional", "alias", "alias_from", "ci", "no_input", "no_output", "mode", "exclude", "preserve",
            "defer_default", "immutable", "depends", "required_mode"]
CLASS_OPTS = [{}, {}, {"ignore_required": True}, {"no_default": True}, {"force_default": 0}, {"defer_default": True},
              {"addition": True}, {"addition": False}, {"mode": "r"}, {"mode": "w"}, {"case_insensitive": True},
              {"invalid_values": "exclude"}, {"collect_errors": True}, {"min_params": 2}, {"max_params": 2}]


def feature_pairs():
    import itertools
    return [set(p) for p in itertools.combinations(FEATURES, 2) if set(p) != {"exclude", "preserve"}]


def small_class(rng, first_feats=None, forced_dfs=None):
    """2-3 fields, 1-3 features each (the first field: the given ones), one class option"""
    name = dyn.fresh("Sm")
    base = rng.choice(["Schema", "Schema", "DataClass"])
    n = rng.choice([2, 2, 3]) if first_feats is None else rng.choice([2, 2, 2, 3])
    names = ["a", "b", "c"][:n]
    okw = dict(rng.choice(CLASS_OPTS))
    if forced_dfs is not None:
        okw["data_first_search"] = forced_dfs
    elif rng.random() < 0.5:
        okw["data_first_search"] = rng.choice([True, False])
    lines = ["class %s(%s):" % (name, base)]
    if okw:
        lines.append("    __options__ = Options(%s)" % ", ".join("%s=%r" % kv for kv in okw.items()))
    fields = []
    for fname in names:
        t = rng.choice(["int", "PositiveInt", "str", "Optional[int]", "bool"])
        if first_feats is not None and fname == "a":
            feats = set(first_feats)
            if rng.random() < 0.3:
                feats.add(rng.choice(FEATURES))
            if feats & {"exclude", "preserve"}:
                t = rng.choice(["int", "PositiveInt", "Optional[int]"])
        else:
            feats = set(rng.sample(FEATURES, rng.randint(0 if first_feats is not None else 1, 3 if first_feats is None else 2)))
            if first_feats is not None and rng.random() < 0.85:
                feats.add(rng.choice(["optional", "default"]))    # the other fields are mostly not required
        if "exclude" in feats and "preserve" in feats:
            feats.discard("preserve")
        fkw = []
        meta = dict(attname=fname, type=t, aliases=[fname], ci=False, theme="small")
        has_default = "default" in feats or "defer_default" in feats
        if has_default:
            fkw.append("default=%s" % rng.choice([d for d in DEFAULTS[t] if not d.startswith("Field(")]))
        elif "optional" in feats or "exclude" in feats:
            fkw.append("required=False")
        elif "required_mode" in feats:
            fkw.append("required=%r" % rng.choice(["r", "w", "a"]))
        if "alias" in feats:
            fkw.append("alias=%r" % (fname + "_out")); meta["alias"] = fname + "_out"
        if "alias_from" in feats:
            af = [fname + "1", fname.upper() + "x"][:rng.randint(1, 2)]
            fkw.append("alias_from=%r" % af); meta["aliases"] += af
        if "ci" in feats:
            fkw.append("case_insensitive=True"); meta["ci"] = True
        if "no_input" in feats:
            fkw.append("no_input=%r" % rng.choice([True, "r", "w", "a"]))
        if "no_output" in feats:
            fkw.append("no_output=%r" % rng.choice([True, "r", "w"]))
        if "mode" in feats:
            fkw.append(rng.choice(["mode='r'", "mode='w'", "mode='rw'", "readonly=True", "writeonly=True"]))
        if "exclude" in feats and t in BADV:
            fkw.append("on_error='exclude'")
        if "preserve" in feats and t in BADV:
            fkw.append("on_error='preserve'")
        if "defer_default" in feats:
            fkw.append("defer_default=True")
        if "immutable" in feats:
            fkw.append("immutable=True")
        if "depends" in feats:
            fkw.append("dependencies=[%r]" % rng.choice([x for x in names if x != fname]))
        lines.append("    %s: %s%s" % (fname, t, (" = Field(%s)" % ", ".join(fkw)) if fkw else ""))
        fields.append(meta)
    return name, "\n".join(lines) + "\n", fields, okw


def declare_small(rng, tries=30, first_feats=None, forced_dfs=None):
    for _ in range(tries):
        name, src, fields, okw = small_class(rng, first_feats, forced_dfs)
        try:
            dyn.declare(src)
            return name, src, fields, okw
        except Exception:
            continue
    raise RuntimeError("could not declare a class")


STATES = ["absent", "valid", "invalid", "alias", "twice-same", "twice-diff", "case"]


def state_inputs(rng, fields, limit=24):
    """inputs covering combinations of per-field input states"""
    import itertools
    combos = list(itertools.product(STATES, repeat=len(fields)))
    rng.shuffle(combos)
    out = []
    for combo in combos[:limit]:
        items = []
        for f, st in zip(fields, combo):
            t = f["type"]
            keys = list(f["aliases"]) + ([f["alias"]] if "alias" in f else [])
            good = rng.choice(GOODV[t])
            if st == "absent":
                continue
            if st == "valid":
                items.append((keys[0], good))
            elif st == "invalid":
                items.append((rng.choice(keys), rng.choice(BADV[t]) if t in BADV else good))
            elif st == "alias":
                items.append((keys[-1], good))
            elif st == "case":
                k = rng.choice(keys)
                items.append((rng.choice([k.upper(), k.capitalize()]), good))
            elif st in ("twice-same", "twice-diff"):
                if len(keys) > 1:
                    k1, k2 = rng.sample(keys, 2)
                else:
                    k1, k2 = keys[0], keys[0].upper()
                items.append((k1, good))
                items.append((k2, good if st == "twice-same" else rng.choice([x for x in GOODV[t] if x != good] or [good])))
        if rng.random() < 0.2:
            items.append((rng.choice(["zz", "extra"]), rng.choice([1, "x"])))
        rng.shuffle(items)
        out.append(dict(items))
    return out
