"""Random data-class declarations exercising the Field parameters and class Options, and inputs over the
declared names, aliases, case variants and extra keys."""
import random
from . import dyn

TYPES = ["int", "str", "PositiveInt", "List[int]", "Optional[int]", "bool"]
GOODV = {"int": [1, "2", 3.0], "str": ["a", "bc", 5], "PositiveInt": [1, "5"], "List[int]": [[1, "2"], []],
         "Optional[int]": [None, 4, "6"], "bool": [True, "false", 0]}
BADV = {"int": ["x"], "PositiveInt": [0, "x"], "List[int]": [["x"]], "Optional[int]": ["x"]}
DEFAULTS = {"int": ["7", "0"], "str": ["'d'", "''"], "PositiveInt": ["3"], "List[int]": ["Field(default_factory=list)"],
            "Optional[int]": ["None", "9"], "bool": ["False", "True"]}


def rand_class(rng, allow_options=True):
    name = dyn.fresh("Fc")
    base = rng.choice(["Schema", "Schema", "DataClass"])
    n = rng.randint(1, 4)
    fields, lines = [], ["class %s(%s):" % (name, base)]
    okw = {}
    if allow_options:
        if rng.random() < 0.15: okw["ignore_required"] = True
        if rng.random() < 0.1: okw["no_default"] = True
        elif rng.random() < 0.08: okw["force_default"] = rng.choice([None, 0])
        if rng.random() < 0.1: okw["defer_default"] = True
        if rng.random() < 0.15: okw["ignore_alias_conflicts"] = True
        if rng.random() < 0.2: okw["addition"] = rng.choice([True, False])
        if rng.random() < 0.1: okw["max_params"] = rng.choice([1, 2, 3])
        if rng.random() < 0.1: okw["min_params"] = rng.choice([1, 2])
        if rng.random() < 0.15: okw["mode"] = rng.choice(["r", "w", "a"])
        if rng.random() < 0.12: okw["case_insensitive"] = True
        if rng.random() < 0.3: okw["data_first_search"] = rng.choice([True, False])
        if rng.random() < 0.15: okw["collect_errors"] = True
        if rng.random() < 0.1: okw["invalid_values"] = rng.choice(["exclude", "preserve"])
    if okw:
        lines.append("    __options__ = Options(%s)" % ", ".join("%s=%r" % kv for kv in okw.items()))
    names = ["a", "b", "c", "d"][:n]
    for fname in names:
        t = rng.choice(TYPES)
        fkw = []
        meta = dict(attname=fname, type=t, aliases=[fname], ci=False)
        r = rng.random()
        default = None
        if r < 0.45:
            default = rng.choice(DEFAULTS[t])
        if rng.random() < 0.25:
            al = fname + "_out"
            fkw.append("alias=%r" % al)
            meta["alias"] = al
        if rng.random() < 0.25:
            af = rng.sample([fname + "1", fname + "2", fname.upper() + "x"], rng.randint(1, 2))
            fkw.append("alias_from=%r" % af)
            meta["aliases"] += af
        if rng.random() < 0.12:
            fkw.append("case_insensitive=True")
            meta["ci"] = True
        if rng.random() < 0.1:
            fkw.append("no_input=%r" % rng.choice([True, "r", "w", "a"]))
        if rng.random() < 0.1:
            fkw.append("no_output=%r" % rng.choice([True, "r", "w"]))
        if rng.random() < 0.12:
            fkw.append(rng.choice(["mode='r'", "mode='w'", "mode='rw'", "readonly=True", "writeonly=True"]))
        if rng.random() < 0.1 and default is None:
            fkw.append("required=%r" % rng.choice([False, "r", "w", "a"]))
        if rng.random() < 0.08 and default is not None:
            fkw.append("defer_default=True")
        if rng.random() < 0.1 and len(names) > 1:
            dep = rng.choice([x for x in names if x != fname])
            fkw.append("dependencies=[%r]" % dep)
        if rng.random() < 0.1 and t in BADV and (default is not None or "required=False" in " ".join(fkw)):
            fkw.append("on_error=%r" % rng.choice(["exclude", "preserve"]))
        if default is not None and default.startswith("Field("):
            fkw.insert(0, "default_factory=list")
            default = None
        if default is not None:
            fkw.insert(0, "default=%s" % default)
        lines.append("    %s: %s%s" % (fname, t, (" = Field(%s)" % ", ".join(fkw)) if fkw else ""))
        fields.append(meta)
    src = "\n".join(lines) + "\n"
    return name, src, fields, okw


def declare(rng, tries=20):
    for _ in range(tries):
        name, src, fields, okw = rand_class(rng)
        try:
            dyn.declare(src)
            return name, src, fields, okw
        except Exception:
            continue
    raise RuntimeError("could not declare a class")


def rand_input(rng, fields):
    data = {}
    for f in fields:
        r = rng.random()
        if r < 0.15:
            continue
        keys = list(f["aliases"]) + ([f["alias"]] if "alias" in f else [])
        k = rng.choice(keys)
        if rng.random() < 0.25:
            k = rng.choice([k.upper(), k.lower(), k.capitalize()])
        t = f["type"]
        v = rng.choice(BADV[t]) if (t in BADV and rng.random() < 0.2) else rng.choice(GOODV[t])
        data[k] = v
        if rng.random() < 0.2 and len(keys) > 1:       # the same field under a second accepted name
            k2 = rng.choice([x for x in keys if x != k])
            data[k2] = v if rng.random() < 0.6 else rng.choice(GOODV[t])
    if rng.random() < 0.25:
        data[rng.choice(["zz", "extra", "A"])] = rng.choice([1, "x"])
    items = list(data.items())
    rng.shuffle(items)
    return dict(items)
