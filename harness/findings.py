"""Known findings: replaying each listed finding on the implementation, and the matchers that decide
whether a failing case belongs to a listed finding (so that a different violation of the same
property is still reported).  known_findings.json is never written at run time."""
import json
from decimal import Decimal
from . import core


def spec_has(spec, pred):
    if pred(spec):
        return True
    if isinstance(spec, (tuple, list)):
        return any(spec_has(s, pred) for s in spec if isinstance(s, (tuple, list)))
    return False


def has_op(op):
    return lambda spec: spec_has(spec, lambda s: isinstance(s, tuple) and len(s) == 3 and s[0] == "logic" and s[1] == op)


MATCHERS = {
    # case is the dict produced by parsesuite.gen_case
    "and-in-type": lambda c: has_op("&")(c["spec"]),
    "xor-in-type": lambda c: has_op("^")(c["spec"]),
    "set-in-type": lambda c: spec_has(c["spec"], lambda s: isinstance(s, tuple) and s and s[0] in ("set", "setc")),
    "exclude-policy": lambda c: "exclude" in [c["options"].get(k) for k in ("invalid_items", "invalid_keys", "invalid_values")],
    "union-in-type": lambda c: has_op("|")(c["spec"]) or spec_has(c["spec"], lambda s: isinstance(s, tuple) and s and s[0] == "optional"),
    "preserve-policy": lambda c: "preserve" in [c["options"].get(k) for k in ("invalid_items", "invalid_keys", "invalid_values")],
    "tuple-collect": lambda c: c["options"].get("collect_errors") and
                               spec_has(c["spec"], lambda s: isinstance(s, tuple) and s and s[0] == "tuple"),
}


def load(pid):
    return core.load_findings(pid)


def matches_any(pid, case):
    for f in load(pid):
        m = MATCHERS.get(f.get("matcher"))
        if m:
            try:
                if m(case):
                    return f["id"]
            except Exception:
                pass
    return None


def replay_all(res, pid, runners):
    """runners: finding id -> callable returning True when the finding still reproduces"""
    for f in load(pid):
        fn = runners.get(f["id"])
        if fn is None:
            continue
        try:
            still = fn()
        except Exception as e:
            still = False
            res.notes.append("replay of %s failed: %r" % (f["id"], e))
        if still:
            res.known.append((f["id"], f["what"]))
        else:
            res.notes.append("FINDING-RESOLVED: property=%s id=%s no longer reproduces" % (pid, f["id"]))
            print("FINDING-RESOLVED: property=%s id=%s" % (pid, f["id"]))
