"""Suite `gen-exec`: every definition of coq/Gen/Constraints.v (translated from
utype/parser/rule.py class Constraints on this run) is executed on the same arguments as the
Python function it was translated from.  Validates translator + Base primitives by execution."""
import random, re, math
from decimal import Decimal
from . import core, gen

STRICT = ["gt", "ge", "lt", "le", "const", "enum", "regex", "decimal_places", "multiple_of", "max_digits",
          "length", "max_length", "min_length", "unique_items"]
LAX = ["ge", "le", "const", "enum", "decimal_places", "multiple_of", "max_digits", "length", "max_length", "unique_items"]
REGEXES = ["[0-9]+", "a*b?", "[a-z]{2,3}", ".*", "-?[0-9]+(\\.[0-9]+)?", "(true|false)", "x",
           # a whole-string match that needs backtracking past the first successful prefix match
           "a|ab", "ab?|abc", "[0-9]+?", "(a|ab)(c|bcd)?"]


def gen_case(rng):
    lax = rng.random() < 0.4
    name = rng.choice(LAX if lax else STRICT)
    if rng.random() < 0.06:
        return dict(name="_parse_decimal", lax=False, value=gen.number(rng), bound=None)
    if name in ("gt", "ge", "lt", "le"):
        b = gen.number(rng) if rng.random() < 0.85 else rng.choice(gen.STRS)
        v = gen.near(rng, b) if rng.random() < 0.7 else gen.scalar(rng)
    elif name == "const":
        b = gen.scalar(rng)
        v = rng.choice([b, gen.near(rng, b), gen.scalar(rng)])
    elif name == "enum":
        b = rng.choice([list, tuple, set])(x for x in gen.short_list(rng, maxlen=4) if x == x and not isinstance(x, (list, dict)))
        v = rng.choice(list(b)) if b and rng.random() < 0.5 else gen.scalar(rng)
    elif name == "regex":
        b = rng.choice(REGEXES)
        v = rng.choice(gen.STRS) if rng.random() < 0.8 else gen.scalar(rng)
    elif name in ("decimal_places", "max_digits"):
        b = rng.choice([0, 1, 2, 3, 4, 5])
        v = gen.number(rng)
    elif name == "multiple_of":
        b = rng.choice([1, 2, 3, 5, 10, 0, -2, Decimal("0.5"), 2.0])
        v = gen.number(rng)
    elif name in ("length", "max_length", "min_length"):
        b = rng.choice([0, 1, 2, 3, 4])
        k = rng.random()
        if k < 0.4:
            v = rng.choice(gen.STRS)
        elif k < 0.7:
            v = rng.choice([list, tuple])(gen.short_list(rng, maxlen=5))
        elif k < 0.8:
            try:
                v = set(x for x in gen.short_list(rng, maxlen=5) if x == x)
            except TypeError:
                v = []
        else:
            v = gen.scalar(rng)
    else:  # unique_items
        b = rng.choice([True, True, False])
        k = rng.random()
        pool = [1, 1.0, True, 2, "a", "b", Decimal(1), 0, False, None, "1"]
        if rng.random() < 0.3:
            # unhashable items (compared by a list scan, never through a set), equal ones included
            pool = pool + [[1], [1], [], [], [2], {"a": 1}, {"a": 1}, {}, [1.0], [True]]
        xs = [rng.choice(pool) for _ in range(rng.randint(0, 5))]
        v = rng.choice([list, tuple])(xs) if k < 0.85 else (set(x for x in xs if not isinstance(x, (list, dict))) if k < 0.93 else gen.scalar(rng))
    return dict(name=name, lax=lax, value=v, bound=b)


def run_impl(case):
    from utype.parser.rule import Constraints
    name = case["name"]
    fn = getattr(Constraints, ("lax_" + name) if case["lax"] else name)
    try:
        r = fn(case["value"]) if name == "_parse_decimal" else fn(case["value"], case["bound"])
    except Exception as e:
        return core.classify_exc(e)
    return ("ok", r)


def regex_table(case):
    if case["name"] != "regex":
        return []
    try:
        s = str(case["value"])
        return [(case["bound"], s, bool(re.fullmatch(case["bound"], s)))]
    except Exception:
        return []


def coq_case(enc, case, outcome):
    tbl = "; ".join("(%s, %s, %s)" % (core.coq_str(p), core.coq_str(s), "true" if b else "false")
                    for p, s, b in regex_table(case))
    return ("{| vc_name := %s; vc_lax := %s; vc_value := %s; vc_bound := %s; vc_re := [%s]; vc_expected := %s |}"
            % (core.coq_str(case["name"]), "true" if case["lax"] else "false", enc.val(case["value"]),
               enc.val(case["bound"]), tbl, core.coq_obs(enc, outcome)))


def run_suite(res, tier, seed, only=None):
    rng = random.Random(seed * 1000003 + 2)
    n = 6000 if tier == "quick" else 120000
    cases = []
    while len(cases) < n:
        c = gen_case(rng)
        if only and c["name"] not in only and c["name"] != "_parse_decimal":
            continue
        cases.append(c)
    outs = core.pool_map(run_impl, cases, nproc=8)
    enc = core.Encoder()
    lines, idx, unenc = [], [], 0
    for i, (c, o) in enumerate(zip(cases, outs)):
        if o[0] == "harness-error":
            res.broken.append(dict(kind="correspondence", name="gen-exec (harness error)", detail=str(o)))
            continue
        try:
            lines.append(coq_case(enc, c, o))
            idx.append(i)
        except core.Unencodable:
            unenc += 1
    per = 500
    shards = []
    for s in range(0, len(lines), per):
        shards.append("Definition cases : list vcase := [\n%s\n].\nGoal True. idtac \"MISMATCH\". exact I. Qed.\n"
                      "Eval vm_compute in (bad_idx vcase_ok cases).\nGoal True. idtac \"SKIPS\". exact I. Qed.\n"
                      "Eval vm_compute in (count_if vcase_skip cases).\n" % ";\n".join(lines[s:s + per]))
    mism, skips = [], 0
    b = core.build(["Model/Validators.vo"])
    if not b["ok"]:
        res.broken.append(dict(kind="proof", name=b["failed"], detail=b["log"][-2000:]))
        return []
    for k, (rc, out) in enumerate(core.run_sharded("genexec", ["PyVal", "PyPrim", "PyOps", "Constraints", "Validators"], shards)):
        bad = core.parse_nat_list(out, "MISMATCH") if rc == 0 else None
        if bad is None:
            res.broken.append(dict(kind="correspondence", name="gen-exec (coqc failed)", detail=out[-1500:]))
            continue
        skips += core.parse_nat(out, "SKIPS") or 0
        mism.extend(idx[k * per + j] for j in bad)
    hist = {}
    for c in cases:
        key = ("lax_" if c["lax"] else "") + c["name"]
        hist[key] = hist.get(key, 0) + 1
    okinds = {}
    for o in outs:
        okinds[o[0] if o[0] != "other" else "other:" + o[1]] = okinds.get(o[0] if o[0] != "other" else "other:" + o[1], 0) + 1
    distinct = len({repr((c["name"], c["lax"], c["value"], c["bound"])) for c in cases})
    res.add_suite("gen-exec", len(cases), distinct - skips if distinct > skips else 0,
                  [dict(case=repr(cases[0]), impl=repr(outs[0])), dict(case=repr(cases[1]), impl=repr(outs[1]))],
                  "every generated validator run on boundary-centred (value, bound) pairs; distinct by (validator, value, bound); "
                  "cases the model reports Unmodelled (float repr, float arithmetic, substring tests) are subtracted",
                  dict(per_validator=hist, outcome_kinds=okinds, unmodelled_skipped=skips, unencodable=unenc,
                       mismatches=len(mism)))
    if mism:
        res.broken.append(dict(kind="correspondence", name="gen-exec",
                               detail="generated validators differ from the source on %d cases; first: %r -> impl %r"
                                      % (len(mism), cases[mism[0]], outs[mism[0]])))
    return [(cases[i], outs[i]) for i in mism]
