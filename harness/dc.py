"""Random data-class declarations (as Python source text exec'd in harness.dyn) and inputs."""
import random
from decimal import Decimal
from . import core, decl, gen, dyn

FIELD_TYPES = ["int", "str", "float", "bool", "Decimal", "PositiveInt", "Month", "Optional[int]", "List[int]",
               "Dict[str, int]", "Tuple[int, str]", "Union[int, str]", "List[PositiveInt]"]

SAMPLE = {
    "int": [1, "2", 3.0, "x", None, [4]], "str": ["a", 5, None, b"b"], "float": [1.5, "2.5", 3, "x"],
    "bool": [True, "false", 1, "x"], "Decimal": [Decimal("1.5"), "2.50", 3, "x"],
    "PositiveInt": [1, "5", 0, -1, "x"], "Month": [1, 12, 13, "6", 0],
    "Optional[int]": [None, 1, "2", "x"], "List[int]": [[1, 2], ["3"], [1, "x"], 5, "x", []],
    "Dict[str, int]": [{"a": 1}, {"a": "2"}, {"a": "x"}, {}, 5],
    "Tuple[int, str]": [(1, "a"), ["2", 3], (1,), (1, "a", 2), "x"],
    "Union[int, str]": [1, "a", 1.5, None, [1]], "List[PositiveInt]": [[1, 2], [0], ["3"], []],
}


def rand_class(rng, recursive=None, nfields=None, allow=("alias", "default", "required", "no_input", "mode", "deps")):
    """returns (name, source).  recursive: None or one of 'list','optional','dict','tuple','union' """
    name = dyn.fresh("K")
    base = rng.choice(["Schema", "Schema", "DataClass"])
    lines = ["class %s(%s):" % (name, base)]
    opts = {}
    return name, base, lines, opts


def node_class(kind, max_depth, base="Schema", extra_opts=None, optional_v=False):
    """a self-referencing class: v: int; link field of the given kind"""
    name = dyn.fresh("Node")
    ann = {"list": "List['%s'] = Field(default_factory=list)" % name,
           "optional": "Optional['%s'] = None" % name,
           "dict": "Dict[str, '%s'] = Field(default_factory=dict)" % name,
           "tuple": "Tuple['%s', ...] = ()" % name,
           "union": "Union['%s', int, None] = None" % name,
           "dictf": "Dict[float, '%s'] = Field(default_factory=dict)" % name,
           "dictd": "Dict[Decimal, '%s'] = Field(default_factory=dict)" % name,
           "dictb": "Dict[bool, '%s'] = Field(default_factory=dict)" % name,
           "dictn": "Dict[Optional[str], '%s'] = Field(default_factory=dict)" % name,
           "listopt": "List[Optional['%s']] = Field(default_factory=list)" % name,
           # a union inside a union: the inner one is evaluated in the (already strict) stages of the outer one
           "listoo": "Optional[List[Optional['%s']]] = None" % name,
           "dictou": "Optional[Dict[str, Union[int, '%s']]] = None" % name}[kind]
    okw = dict(extra_opts or {})
    if max_depth is not None:
        okw["max_depth"] = max_depth
    src = "class %s(%s):\n    __options__ = Options(%s)\n    v: int%s\n    link: %s\n" % (
        name, base, ", ".join("%s=%r" % kv for kv in okw.items()), " = 0" if optional_v else "", ann)
    dyn.declare(src)
    return dyn.get(name), src


def tree_input(rng, kind, depth, bad_leaf=False, width=2, empty_leaf=False):
    """an input mapping of the given nesting depth (1 = a single node)"""
    node = {"v": rng.randint(0, 9)}
    if depth <= 1:
        if empty_leaf and not bad_leaf and rng.random() < 0.5:
            return {}              # every field of the class has a default: an empty mapping is a node too
        if bad_leaf:
            node["v"] = "x"
        elif kind == "union" and rng.random() < 0.6:
            node["link"] = rng.choice([5, "5", None, "7", 2.0])      # a scalar arm of the union, some needing conversion
        return node
    def child(d):
        return tree_input(rng, kind, d, bad_leaf, width, empty_leaf)
    if kind in ("list", "listopt", "listoo"):
        n = rng.randint(1, width)
        deep = rng.randrange(n)      # the deepest child sits at a random index (0 included)
        node["link"] = [child(depth - 1) if i == deep else child(rng.randint(1, depth - 1)) for i in range(n)]
    elif kind == "tuple":
        n = rng.randint(1, width)
        deep = rng.randrange(n)
        node["link"] = tuple(child(depth - 1) if i == deep else child(rng.randint(1, depth - 1)) for i in range(n))
    elif kind in ("dict", "dictf", "dictd", "dictb", "dictn", "dictou"):
        pool = {"dict": ["", "a", "b", "0"], "dictou": ["", "a", "z", "0"], "dictf": [1.5, "2.5", 0.0, 3], "dictd": ["1.5", 0, "2"],
                "dictb": [True, False, "true", 0], "dictn": [None, "a", "", None]}[kind]
        pool = list(dict.fromkeys(pool))
        keys = rng.sample(pool, rng.randint(1, min(width, len(pool))))
        deep = rng.choice(keys)
        node["link"] = {k: (child(depth - 1) if k == deep else child(rng.randint(1, depth - 1))) for k in keys}
    else:
        node["link"] = child(depth - 1)
    return node


def nesting(v, kind=None):
    """data-class nesting depth of a tree_input (kind: the link kind; in the dict kinds the link is a mapping of nodes,
    everywhere else a mapping in link position is a node, an empty one included)"""
    if not isinstance(v, dict):
        return 0
    link = v.get("link")
    if link is None:
        return 1
    dict_kind = kind is not None and kind.startswith("dict")
    if isinstance(link, dict) and not dict_kind and ("v" in link or kind is not None):
        return 1 + nesting(link, kind)
    if isinstance(link, dict):
        return 1 + max([nesting(x, kind) for x in link.values()] + [0])
    if isinstance(link, (list, tuple)):
        return 1 + max([nesting(x, kind) for x in link] + [0])
    return 1
