"""Suite runner for data-class cases: Cls.__from__(data, options) / Cls(**data) on the
implementation against Model/Parse.v call_dataclass."""
import warnings
from . import core, decl, dyn, parsesuite

FUEL = 60


def run_impl(case):
    import utype
    warnings.simplefilter("ignore")
    cls = dyn.get(case["cls"])
    try:
        o = utype.Options(**case["ropts"]) if case.get("ropts") is not None else None
    except Exception as e:
        return ("config-error", type(e).__name__)
    try:
        if case.get("entry") == "init":
            r = cls(**case["data"])
        else:
            r = cls.__from__(case["data"], options=o)
    except Exception as e:
        return core.classify_exc(e)
    return ("ok", core.freeze(r))


PRELUDE = """
Definition dcase := (nat * option options * pyval * obs)%%type.
Definition run_case (D : decls) (k : dcase) : obs :=
  let '(c, ro, v, _) := k in observe (call_dataclass RE D %d c ro v).
Definition case_ok (D : decls) (k : dcase) : bool := let '(_, _, _, e) := k in obs_sim (run_case D k) e.
Definition case_skip (D : decls) (k : dcase) : bool := obs_is_skip (run_case D k).
"""


class InstEncoder(core.Encoder):
    def inst_data(self, v):
        if isinstance(v, dict):
            return list(dict.items(v))
        return [(k, x) for k, x in v.__dict__.items() if not k.startswith("__")]


def run_suite(res, cases, name, per=200, rule="", extra=None, fuel=FUEL):
    import utype
    outs = core.pool_map(run_impl, cases)
    world = decl.World()
    world.encoder = lambda: InstEncoder(classes=dict(world.classes), objects=world.objects)
    lines, idx, cfg, unenc = [], [], 0, 0
    strs = set()
    for i, (c, o) in enumerate(zip(cases, outs)):
        if o[0] == "config-error":
            cfg += 1
            continue
        if o[0] == "harness-error":
            res.broken.append(dict(kind="correspondence", name=name + " (harness error)", detail=str(o)[:1500]))
            continue
        try:
            cls = dyn.get(c["cls"])
            cid = world.cid(cls)
            ro = "None" if c.get("ropts") is None else "(Some %s)" % decl.reflect_options(world, utype.Options(**c["ropts"]))
            enc = world.encoder()
            lines.append("(%d%%nat, %s, %s, %s)" % (cid, ro, enc.val(c["data"]), core.coq_obs(enc, o)))
            idx.append(i)
            parsesuite.strings_in(c["data"], strs)
        except (core.Unencodable, decl.Unreflectable) as e:
            unenc += 1
    table = parsesuite.regex_oracle([("[0-9]+", s) for s in strs])
    import re as _re

    def sub_world(chunk):
        """only the declarations a shard's cases reach (their classes and, transitively, the classes those mention): the cost
        of a shard does not grow with the number of classes of the whole suite"""
        need, todo = set(), [int(_re.match(r"\((\d+)%nat", l).group(1)) for l in chunk]
        while todo:
            i = todo.pop()
            if i in need:
                continue
            need.add(i)
            d = world.decls.get(i)
            if d:
                todo.extend(int(x) for x in _re.findall(r"TData (\d+)%nat", d))
        arms = "".join("  | %d%%nat => Some (%s)\n" % (i, world.decls[i]) for i in sorted(need) if world.decls.get(i))
        return "(fun c : nat => match c with\n%s  | _ => None end)" % arms
    shards = ["Definition RE := %s.\n%s\nDefinition DD : decls := %s.\nDefinition cases : list dcase := [\n%s\n].\n"
              "Goal True. idtac \"MISMATCH\". exact I. Qed.\nEval vm_compute in (bad_idx (case_ok DD) cases).\n"
              "Goal True. idtac \"SKIPS\". exact I. Qed.\nEval vm_compute in (count_if (case_skip DD) cases).\n"
              % (table, PRELUDE % fuel, sub_world(lines[s:s + per]), ";\n".join(lines[s:s + per])) for s in range(0, len(lines), per)]
    mism, skips = [], 0
    b = core.build(["Model/Parse.vo"])
    if not b["ok"]:
        res.broken.append(dict(kind="proof", name=b["failed"], detail=b["log"][-2000:]))
        return []
    for k, (rc, out) in enumerate(core.run_sharded(name.replace("-", "_"), ["Parse"], shards)):
        bad = core.parse_nat_list(out, "MISMATCH") if rc == 0 else None
        if bad is None:
            res.broken.append(dict(kind="correspondence", name=name + " (coqc failed)", detail=out[-1500:]))
            continue
        skips += core.parse_nat(out, "SKIPS") or 0
        mism.extend(idx[k * per + j] for j in bad)
    okinds = {}
    for o in outs:
        key = o[0] if o[0] != "other" else "other:" + o[1]
        okinds[key] = okinds.get(key, 0) + 1
    distinct = len({repr((c["cls"], c.get("ropts"), c["data"])) for c in cases})
    res.add_suite(name, len(cases), max(0, distinct - skips - cfg - unenc),
                  [dict(case=repr(cases[0]), impl=repr(outs[0])[:300])], rule,
                  dict(outcome_kinds=okinds, unmodelled_skipped=skips, config_errors=cfg, unencodable=unenc,
                       mismatches=len(mism), **(extra or {})))
    if mism:
        res.broken.append(dict(kind="correspondence", name=name,
                               detail="model and implementation differ on %d cases; first: %r -> impl %r"
                                      % (len(mism), cases[mism[0]], outs[mism[0]])))
    return [(cases[i], outs[i]) for i in mism], outs
