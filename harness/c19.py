"""C19 — Parsing is pure: no input mutation, no shared defaults, no cross-call state."""
import random, warnings, os, pickle, copy, json
from . import core, dyn, findings

PID = "C19"

# --------------------------------------------------------------------------------------------
# 1. copy_value on object graphs: Model/Heap.v against utype.utils.functional.copy_value
# --------------------------------------------------------------------------------------------
KINDS = [list, set, frozenset, tuple]


class Opaque:
    def __init__(self, tag):
        self.tag = tag


def rand_graph(rng):
    """a DAG of cells, cell i pointing only to cells < i: ('atom', i) / ('opaque', i) / ('seq', kind, elems) / ('map', [(k, v)])
    with sharing (one cell used in several containers, or twice in one).  Set kinds hold atoms only (hashable and, for the
    comparison, order-free); empty tuples / frozensets are not generated: CPython keeps one object for each, they are atoms"""
    n_atoms = rng.randint(1, 4)
    cells = [("atom", i) for i in range(n_atoms)]
    if rng.random() < 0.3:
        cells.append(("opaque", len(cells)))
    for _ in range(rng.randint(1, 7)):
        r = rng.random()
        idx = list(range(len(cells)))
        atoms = [i for i in idx if cells[i][0] == "atom"]
        hashable = list(atoms)
        if r < 0.6:
            kind = rng.choice([0, 0, 0, 1, 2, 3, 3])
            if kind in (1, 2):
                k = rng.randint(1 if kind == 2 else 0, len(atoms))
                elems = sorted(rng.sample(atoms, k))
            else:
                k = rng.randint(1 if kind == 3 else 0, 4)
                elems = [rng.choice(idx) for _ in range(k)]
            cells.append(("seq", kind, elems))
        else:
            ks = rng.sample(hashable, rng.randint(0, len(hashable)))
            cells.append(("map", [(k, rng.choice(idx)) for k in ks]))
    return cells


def build(cells):
    objs = []
    for i, c in enumerate(cells):
        if c[0] == "atom":
            objs.append("atom-%d-%s" % (i, "x" * 3))          # a distinct str object per cell
        elif c[0] == "opaque":
            objs.append(Opaque(i))
        elif c[0] == "seq":
            objs.append(KINDS[c[1]]([objs[e] for e in c[2]]))
        else:
            objs.append({objs[k]: objs[v] for k, v in c[1]})
    return objs


def observe(cells, objs, result):
    """the heap after the call, as the model numbers it: old cells, then every container of the result in post-order.
    Returns (new_cells, root) or a string when the result is not of the shape the model predicts (a tree of fresh
    containers over old atoms / opaque objects)"""
    old = {id(o): i for i, o in enumerate(objs)}
    old_cont = {id(o) for o, c in zip(objs, cells) if c[0] in ("seq", "map")}
    new, seen = [], set()

    def walk(o):
        if isinstance(o, (list, set, frozenset, tuple, dict)):
            if id(o) in old_cont:
                return old[id(o)]
            if id(o) in seen:
                raise ValueError("the copy shares one new container between two places")
            seen.add(id(o))
            if isinstance(o, dict):
                kvs = []
                for k, v in o.items():
                    if id(k) not in old:
                        raise ValueError("dict key %r is not one of the source's key objects" % (k,))
                    kvs.append((old[id(k)], walk(v)))
                new.append(("map", kvs))
            else:
                kind = KINDS.index(type(o)) if type(o) in KINDS else 9
                elems = [walk(e) for e in o]
                if kind in (1, 2):
                    elems = sorted(elems)
                new.append(("seq", kind, elems))
            return len(cells) + len(new) - 1
        if id(o) not in old:
            raise ValueError("object %r of the copy is neither a container nor an object of the source" % (o,))
        return old[id(o)]
    try:
        root = walk(result)
    except ValueError as e:
        return str(e)
    return new, root


def snap(o):
    if isinstance(o, Opaque):
        return ("opaque", o.tag)
    if isinstance(o, dict):
        return ("dict", tuple((snap(k), snap(v)) for k, v in o.items()))
    if isinstance(o, (list, tuple)):
        return (type(o).__name__, tuple(snap(x) for x in o))
    if isinstance(o, (set, frozenset)):
        return (type(o).__name__, tuple(sorted(snap(x) for x in o)))
    return o


def coq_cell(c):
    if c[0] == "atom":
        return "OAtom %d" % c[1]
    if c[0] == "opaque":
        return "OOpaque %d" % c[1]
    if c[0] == "seq":
        return "OSeq %d [%s]" % (c[1], "; ".join(str(e) for e in c[2]))
    return "OMap [%s]" % "; ".join("(%d, %d)" % kv for kv in c[1])


def copy_suite(res, rng, n):
    from utype.utils.functional import copy_value
    lines, shape_bad, mutated = [], [], []
    hist = {"cells": 0, "shared": 0, "maps": 0, "sets": 0, "tuples": 0}
    for _ in range(n):
        cells = rand_graph(rng)
        objs = build(cells)
        root = rng.choice([i for i, c in enumerate(cells) if c[0] in ("seq", "map")] + [len(cells) - 1, 0])
        before = snap(objs[root])
        out = copy_value(objs[root])
        if before != snap(objs[root]):
            mutated.append("copy_value changed its argument: %r" % (cells,))
        ob = observe(cells, objs, out)
        if isinstance(ob, str):
            shape_bad.append("%s; source graph %r root %d" % (ob, cells, root))
            continue
        new, r = ob
        used = [e for c in cells if c[0] == "seq" for e in c[2]] + [v for c in cells if c[0] == "map" for _, v in c[1]]
        hist["cells"] += len(cells)
        hist["shared"] += int(len(used) != len(set(used)))
        hist["maps"] += sum(c[0] == "map" for c in cells)
        hist["sets"] += sum(c[0] == "seq" and c[1] in (1, 2) for c in cells)
        hist["tuples"] += sum(c[0] == "seq" and c[1] == 3 for c in cells)
        lines.append("([%s], %d, [%s], %d)" % ("; ".join(coq_cell(c) for c in cells), root, "; ".join(coq_cell(c) for c in new), r))
    body = ("From Coq Require Import Bool Arith.\nClose Scope Z_scope.\nClose Scope string_scope.\nOpen Scope nat_scope.\nOpen Scope bool_scope.\n"
            "Fixpoint list_beq {A} (e : A -> A -> bool) (x y : list A) : bool :=\n  match x, y with [], [] => true | a :: r, b :: s => e a b && list_beq e r s | _, _ => false end.\n"
            "Definition obj_eqb (a b : obj) : bool :=\n  match a, b with\n  | OAtom x, OAtom y => Nat.eqb x y\n  | OOpaque x, OOpaque y => Nat.eqb x y\n"
            "  | OSeq k x, OSeq k' y => Nat.eqb k k' && list_beq Nat.eqb x y\n"
            "  | OMap x, OMap y => list_beq (fun p q => Nat.eqb (fst p) (fst q) && Nat.eqb (snd p) (snd q)) x y\n  | _, _ => false\n  end.\n"
            "Definition ok (c : list obj * nat * list obj * nat) : bool :=\n  let '(h, l, new, r) := c in\n"
            "  let '(h', l') := copy_value 40 h l in\n"
            "  list_beq obj_eqb h' (h ++ new) && Nat.eqb l' r &&\n"
            "  match denote 40 h l with Some t => all_new 40 (List.length h) h' l' | None => false end.\n"
            "Definition cases : list (list obj * nat * list obj * nat) := [\n%s\n].\nGoal True. idtac \"MISMATCH\". exact I. Qed.\n"
            "Eval vm_compute in (bad_idx ok cases).\n" % ";\n".join(lines))
    rc, out = core.coq_eval("c19copy_%d" % os.getpid(), ["Validators", "Heap"], body)
    bad = core.parse_nat_list(out, "MISMATCH") if rc == 0 else None
    if bad is None:
        res.broken.append(dict(kind="correspondence", name="copy-value (coqc failed)", detail=out[-1500:]))
        bad = []
    res.add_suite("copy-value", len(lines), len(set(lines)), [lines[0] if lines else ""],
                  "random object graphs (lists, sets, frozensets, tuples, dicts over distinct atom objects and opaque objects, 2-12 "
                  "cells, with cells shared between containers and repeated inside one): the heap after the real copy_value, read back "
                  "through id() and numbered as the model numbers it, must be the model's heap and root; the theorem's hypothesis "
                  "(denote succeeds) and conclusion (all_new) are evaluated on every case",
                  dict(mismatches=len(bad), unpredicted_shapes=len(shape_bad), argument_mutated=len(mutated), **hist))
    if bad:
        res.broken.append(dict(kind="correspondence", name="copy-value",
                               detail="model and implementation differ on %d cases; first: %s" % (len(bad), lines[bad[0]])))
    for m in shape_bad[:2]:
        res.broken.append(dict(kind="correspondence", name="copy-value", detail=m))
    for m in mutated[:2]:
        res.violations.append(dict(case=repr(dict(kind="copy-mutates")), observed=m, what=m))
    return shape_bad


# --------------------------------------------------------------------------------------------
# 2. declarations with mutable defaults
# --------------------------------------------------------------------------------------------
def r_ints(rng, lo=0):
    return [rng.randint(0, 9) for _ in range(rng.randint(lo, 3))]


def r_nested(rng, depth=0):
    r = rng.random()
    if depth >= 3 or r < 0.25:
        return rng.choice([0, 1, "s", None, 2.5, True])
    if r < 0.5:
        return [r_nested(rng, depth + 1) for _ in range(rng.randint(0, 3))]
    if r < 0.7:
        return {rng.choice(["k", "m", "n"]) + str(i): r_nested(rng, depth + 1) for i in range(rng.randint(0, 3))}
    if r < 0.8:
        return set(r_ints(rng))
    return tuple(r_nested(rng, depth + 1) for _ in range(rng.randint(1, 3)))


def r_top(rng, kind):
    for _ in range(50):
        v = r_nested(rng, 0)
        if isinstance(v, kind):
            return v
    return kind()


# type -> (default / good input generator, bad input or None)
TYPES = {
    "list": (lambda rng: r_top(rng, list), None),
    "Any": (lambda rng: r_top(rng, (list, dict)), None),
    "List[Any]": (lambda rng: r_top(rng, list), None),
    "dict": (lambda rng: r_top(rng, dict), 5),
    "Dict[str, Any]": (lambda rng: r_top(rng, dict), 5),
    "set": (lambda rng: set(r_ints(rng)), None),
    "tuple": (lambda rng: r_top(rng, tuple), None),
    "List[int]": (lambda rng: r_ints(rng), ["x"]),
    "List[List[int]]": (lambda rng: [r_ints(rng) for _ in range(rng.randint(0, 3))], [["x"]]),
    "Dict[str, List[int]]": (lambda rng: {"k%d" % i: r_ints(rng) for i in range(rng.randint(0, 3))}, {"k": ["x"]}),
    "Set[int]": (lambda rng: set(r_ints(rng)), ["x"]),
    "Tuple[int, List[int]]": (lambda rng: (rng.randint(0, 9), r_ints(rng)), ("x", [1])),
    "Optional[List[int]]": (lambda rng: r_ints(rng), ["x"]),
}


def rand_decl(rng):
    """one data class (optionally with a nested one) and one parsed function, every field / parameter with a mutable default in
    one of the spellings: plain value, Field(default=), Field(default_factory= a constructor / a function returning one shared
    object), optionally deferred"""
    tag = dyn.fresh("Pu")
    shared = {}
    fields, params = [], []

    def spelling(v, allow_field=True):
        r = rng.random()
        if r < 0.35 or not allow_field:
            return repr(v), "plain"
        if r < 0.6:
            return "Field(default=%r%s)" % (v, ", defer_default=True" if rng.random() < 0.15 else ""), "field-default"
        if r < 0.85:
            key = "%s_%d" % (tag, len(shared))
            shared[key] = v
            return "Field(default_factory=lambda: _S[%r])" % key, "factory-shared"
        ctor = {list: "list", dict: "dict", set: "set", tuple: "tuple"}[type(v)]
        return "Field(default_factory=%s)" % ctor, "factory-ctor"
    base = rng.choice(["Schema", "Schema", "DataClass"])
    okw = {}
    if rng.random() < 0.15: okw["addition"] = True
    if rng.random() < 0.15: okw["collect_errors"] = True
    if rng.random() < 0.1: okw["case_insensitive"] = True
    if rng.random() < 0.1: okw["invalid_values"] = "exclude"
    if rng.random() < 0.1: okw["data_first_search"] = rng.choice([True, False])
    if rng.random() < 0.15: okw["cast_keyword_str"] = True
    src = ""
    nested = rng.random() < 0.35
    if nested:
        src += "class %sIn(%s):\n%s    items: List[int] = %s\n    tag: str = 't'\n" % (
            tag, rng.choice(["Schema", "DataClass"]), "    __options__ = Options(cast_keyword_str=True)\n" if okw.get("cast_keyword_str") else "",
            spelling(r_ints(rng))[0])
    src += "class %s(%s):\n" % (tag, base)
    if okw:
        src += "    __options__ = Options(%s)\n" % ", ".join("%s=%r" % kv for kv in okw.items())
    for i in range(rng.randint(1, 4)):
        t = rng.choice(list(TYPES))
        sp, how = spelling(TYPES[t][0](rng))
        src += "    f%d: %s = %s\n" % (i, t, sp)
        fields.append(("f%d" % i, t, how))
    if rng.random() < 0.4:
        src += "    req: int\n"
        fields.append(("req", "int", "required"))
    if nested:
        src += "    inner: %sIn = Field(default_factory=%sIn)\n    inners: List[%sIn] = Field(default_factory=list)\n" % (tag, tag, tag)
        fields.append(("inner", "In", "factory-class"))
        fields.append(("inners", "ListIn", "factory-ctor"))
    # the function
    kinds = []
    n_pos = rng.randint(0, 2)
    n_kw = rng.randint(0 if n_pos else 1, 2)
    sig = []
    for i in range(n_pos + n_kw):
        t = rng.choice(list(TYPES))
        sp, how = spelling(TYPES[t][0](rng))
        sp = sp.replace("Field(", "Param(")
        if i == n_pos:
            sig.append("*")
        sig.append("p%d: %s = %s" % (i, t, sp))
        params.append(("p%d" % i, t, how, i < n_pos))
    if rng.random() < 0.3:
        sig.append("**kw")
    fopts = "@utype.parse" + ("(options=Options(collect_errors=True))" if rng.random() < 0.15 else "")
    src += "%s\ndef %s_fn(%s):\n    return dict(%s)\n" % (fopts, tag, ", ".join(sig), ", ".join("%s=%s" % (p[0], p[0]) for p in params))
    # an excluded (underscore) first parameter, always given, followed by positional-only parameters with mutable defaults
    src += ("@utype.parse\ndef %s_po(_conn, tags: List[str] = %r, counters: Dict[str, int] = %r, /, label: str = ''):\n"
            "    return dict(tags=tags, counters=counters, label=label)\n" % (tag, [rng.choice(["a", "b"])] if rng.random() < 0.5 else [], {"n": rng.randint(0, 3)}))
    # the other call shapes, each with its own wrapper (and per-call context) in the library
    gopts = rng.choice(["@utype.parse", "@utype.parse", "@utype.parse(options=Options(collect_errors=True))", "@utype.parse(eager=True)"])
    dv = r_ints(rng)
    src += ("import typing\n%s\ndef %s_gen(n: int = 2, item: List[int] = %r) -> typing.Iterator[int]:\n"
            "    for i in range(n):\n        yield (i if i < 3 else 'bad')\n    item.append(n)\n" % (gopts, tag, dv))
    src += ("%s\nasync def %s_afn(n: int = 2, item: List[int] = %r) -> int:\n    item.append(n)\n    return n + len(item)\n" % (gopts.replace("(eager=True)", ""), tag, dv))
    src += ("%s\nasync def %s_agen(n: int = 2, item: List[int] = %r) -> typing.AsyncIterator[int]:\n"
            "    for i in range(n):\n        yield (i if i < 3 else 'bad')\n    item.append(n)\n" % (gopts.replace("(eager=True)", ""), tag, dv))
    return dict(tag=tag, src=src, shared=shared, fields=fields, params=params, nested=nested, okw=okw, var_kw="**kw" in sig)


def declare(d):
    for k, v in d["shared"].items():
        dyn._S[k] = v
    dyn.declare(d["src"])
    return dyn.get(d["tag"]), dyn.get(d["tag"] + "_fn")


def canon(v, depth=0):
    """type-strict structural value (dict order kept: re-inserting a key is a change too)"""
    if depth > 12:
        return "..."
    if isinstance(v, dict):
        extra = ()
        return ("dict", type(v).__name__, tuple((canon(k, depth + 1), canon(x, depth + 1)) for k, x in list(v.items())), extra)
    if isinstance(v, (list, tuple)):
        return (type(v).__name__, tuple(canon(x, depth + 1) for x in v))
    if isinstance(v, (set, frozenset)):
        return (type(v).__name__, tuple(sorted((canon(x, depth + 1) for x in v), key=repr)))
    if hasattr(type(v), "__parser__"):
        return ("obj", type(v).__name__, canon({k: x for k, x in vars(v).items() if not k.startswith("__")}, depth + 1))
    return (type(v).__name__, repr(v))


def containers(v, acc=None, depth=0):
    """id -> object for every mutable container reachable from v (through tuples, values and data-class attributes)"""
    acc = {} if acc is None else acc
    if depth > 12:
        return acc
    if isinstance(v, (list, set, dict)):
        if id(v) in acc:
            return acc
        acc[id(v)] = v
    if isinstance(v, dict):
        for x in list(v.values()):
            containers(x, acc, depth + 1)
    elif isinstance(v, (list, tuple, set, frozenset)):
        for x in list(v):
            containers(x, acc, depth + 1)
    if hasattr(type(v), "__parser__") and not isinstance(v, dict):
        for k, x in list(vars(v).items()):
            if not k.startswith("__"):
                containers(x, acc, depth + 1)
    return acc


def field_values(inst, names):
    out = {}
    for n in names:
        try:
            out[n] = getattr(inst, n)
        except AttributeError:
            out[n] = "<unset>"
    return out


def mutate_deep(v, mark):
    """write into every mutable container reachable from v, bypassing any parsing hooks of data-class instances"""
    for o in list(containers(v).values()):
        if isinstance(o, list):
            list.append(o, mark)
        elif isinstance(o, set):
            set.add(o, mark)
        elif isinstance(o, dict):
            dict.__setitem__(o, mark, mark)


def r_input_for(rng, t, bad_p=0.15):
    gen, bad = TYPES[t]
    if bad is not None and rng.random() < bad_p:
        return copy.deepcopy(bad)
    v = gen(rng)
    r = rng.random()
    if r < 0.1 and isinstance(v, list):
        return tuple(v)
    if r < 0.15 and t in ("List[int]", "Optional[List[int]]"):
        return [str(x) for x in v]
    return v


def aliasing_oracle(i_seed):
    """instances / calls built from defaults only (plus the required field): no mutable container of one instance's values is a
    container of another instance's values, of a default object, of a factory's shared object or of the function's own defaults;
    after writing into every container of the first, a second and third are still equal to what the first was, and the default
    objects are what they were"""
    warnings.simplefilter("ignore")
    rng = random.Random(i_seed)
    d = rand_decl(rng)
    try:
        K, fn = declare(d)
    except Exception:
        return None
    # default objects as the library holds them
    holders = dict(("shared:" + k, dyn._S[k]) for k in d["shared"])
    for name, f in K.__parser__.fields.items():
        dv = f.field.default
        if isinstance(dv, (list, dict, set, tuple)):
            holders["default:%s" % name] = dv
    for fname in ("_fn", "_po"):
        rawf = getattr(getattr(dyn.get(d["tag"] + fname), "__parser__", None), "obj", None)
        for i, dv in enumerate((getattr(rawf, "__defaults__", None) or ()) + tuple((getattr(rawf, "__kwdefaults__", None) or {}).values())):
            if isinstance(dv, (list, dict, set, tuple)):
                holders["own default %d of %s" % (i, fname)] = dv
    snap = {k: canon(v) for k, v in holders.items()}
    hold_ids = {}
    for k, v in holders.items():
        for i in containers(v):
            hold_ids[i] = k
    names = [f[0] for f in d["fields"] if f[2] != "required"]
    kw = {"req": 1} if any(f[0] == "req" for f in d["fields"]) else {}
    report = []

    def run(make, what):
        try:
            a = make()
        except Exception as e:
            return
        va = a if isinstance(a, dict) and not hasattr(type(a), "__parser__") else field_values(a, names)
        ca = canon(va)
        ia = containers(va)
        for i in ia:
            if i in hold_ids:
                report.append("%s: a value of the first result is the very object held as %s" % (what, hold_ids[i]))
        mutate_deep(va, "MUT1")
        b = make()
        vb = b if isinstance(b, dict) and not hasattr(type(b), "__parser__") else field_values(b, names)
        if canon(vb) != ca:
            report.append("%s: after writing into the first result's containers the second is %r, the first was %r" % (what, vb, ca))
        ib = containers(vb)
        if set(ia) & set(ib):
            report.append("%s: two results share a mutable container" % what)
        mutate_deep(vb, "MUT2")
        c = make()
        vc = c if isinstance(c, dict) and not hasattr(type(c), "__parser__") else field_values(c, names)
        if canon(vc) != ca:
            report.append("%s: the third result is %r, the first was %r" % (what, vc, ca))
        for k, v in holders.items():
            if canon(v) != snap[k]:
                report.append("%s: the object held as %s changed to %r" % (what, k, v))
    run(lambda: K(**kw), "class %s()" % d["tag"])
    if not report:
        run(lambda: K.__from__(dict(kw)), "class %s.__from__" % d["tag"])
    if not report:
        run(lambda: fn(), "function %s_fn()" % d["tag"])
    if not report:
        po = dyn.get(d["tag"] + "_po")
        run(lambda: po(object(), label="x"), "function %s_po(conn, label='x')" % d["tag"])
    if report:
        return "%s\n-- declaration --\n%s" % (report[0], d["src"])
    return None


# --------------------------------------------------------------------------------------------
# 3. call histories: every call against the same call made first in a fresh process; inputs snapshotted
# --------------------------------------------------------------------------------------------
def plan_call(rng, d):
    """(kind, seed): the input is rebuilt from the seed wherever the call runs"""
    return (rng.choice(["init", "init", "init-dict", "init-dict-kw", "from", "from-json", "fn", "fn", "po", "setattr", "gen", "gen", "afn", "agen"]), rng.getrandbits(32))


def build_input(d, kind, seed):
    rng = random.Random(seed)
    if kind in ("init", "init-dict", "init-dict-kw", "from", "from-json", "setattr"):
        data = {}
        for name, t, how in d["fields"]:
            if how == "required":
                if rng.random() < 0.85:
                    data[name] = rng.choice([1, "2", "x"]) if rng.random() < 0.9 else None
                continue
            if t == "In":
                if rng.random() < 0.5:
                    data[name] = {"items": r_input_for(rng, "List[int]"), "tag": rng.choice(["a", 5])}
                continue
            if t == "ListIn":
                if rng.random() < 0.5:
                    data[name] = [{"items": r_input_for(rng, "List[int]")} for _ in range(rng.randint(0, 2))]
                continue
            if rng.random() < 0.55:
                data[name] = r_input_for(rng, t)
        if rng.random() < 0.25:
            data["extra"] = r_nested(rng, 1)
        if d["okw"].get("cast_keyword_str") and kind in ("init-dict", "init-dict-kw", "from"):
            # keys that are not text (cast to text by the class): in the mapping itself and in the nested mappings
            for m in [data] + [x for x in data.values() if isinstance(x, dict)] + [y for x in data.values() if isinstance(x, list) for y in x if isinstance(y, dict)]:
                if rng.random() < 0.7:
                    m[rng.choice([1, 2, b"k", 3.5])] = rng.choice(["a", 7, [1]])
        if d["okw"].get("case_insensitive") and data and rng.random() < 0.5:
            k = rng.choice([x for x in data if isinstance(x, str)] or ["zz"])
            if k in data:
                data[k.upper()] = data.pop(k)
        if kind == "from-json":
            try:
                return json.dumps(data)
            except TypeError:
                return data
        if kind == "init-dict-kw":
            # a positional mapping and keywords that override / complete it
            ks = [k for k in data if k != "extra"]
            rng.shuffle(ks)
            kw = {k: data.pop(k) for k in ks[:rng.randint(0, len(ks))]}
            for k in list(kw)[:1]:
                if rng.random() < 0.4:
                    data[k] = copy.deepcopy(kw[k])      # present in both
            return (data, kw)
        return data
    if kind == "po":
        args = ["conn"]
        if rng.random() < 0.3:
            args.append(rng.choice([["t"], ["u", "v"], "bad" if rng.random() < 0.3 else []]))
        return (args, {"label": rng.choice(["x", "y", 5])} if rng.random() < 0.7 else {})
    if kind in ("gen", "afn", "agen"):
        n = rng.choice([0, 1, 2, 2, 5, "3", "x", -1, None])
        kw = {}
        if rng.random() < 0.4:
            kw["item"] = rng.choice([[1, 2], ["4"], ["x"], 5, []])
        return ([n] if rng.random() < 0.6 else [], kw) if n is not None else ([], kw)
    args, kwargs = [], {}
    for name, t, how, positional in d["params"]:
        if rng.random() < 0.55:
            v = r_input_for(rng, t)
            if positional and len(args) == int(name[1:]) and rng.random() < 0.6:
                args.append(v)
            else:
                kwargs[name] = v
    if d["var_kw"] and rng.random() < 0.4:
        kwargs["more"] = r_nested(rng, 1)
    return (args, kwargs)


def do_call(K, fn, d, kind, inp, state):
    """outcome of one call as a comparable value; the result object is kept in `state` for later mutation"""
    try:
        if kind == "init":
            r = K(**inp)
        elif kind == "init-dict":
            r = K(inp)
        elif kind == "init-dict-kw":
            r = K(inp[0], **inp[1])
        elif kind in ("from", "from-json"):
            r = K.__from__(inp)
        elif kind == "setattr":
            r = K(**({"req": 1} if any(f[0] == "req" for f in d["fields"]) else {}))
            for k, v in inp.items():
                if k.startswith("f") or k in ("inner", "inners"):
                    setattr(r, k, v)
        elif kind == "po":
            r = dyn.get(d["tag"] + "_po")(*inp[0], **inp[1])
        elif kind == "gen":
            r = list(dyn.get(d["tag"] + "_gen")(*inp[0], **inp[1]))
        elif kind == "afn":
            import asyncio
            r = asyncio.run(dyn.get(d["tag"] + "_afn")(*inp[0], **inp[1]))
        elif kind == "agen":
            import asyncio

            async def drive():
                return [v async for v in dyn.get(d["tag"] + "_agen")(*inp[0], **inp[1])]
            r = asyncio.run(drive())
        else:
            r = fn(*inp[0], **inp[1])
        state.append(r)
        if hasattr(type(r), "__parser__"):
            names = [f[0] for f in d["fields"]]
            return ("ok", canon(field_values(r, names)), canon(dict(r)) if isinstance(r, dict) else None)
        return ("ok", canon(r))
    except Exception as e:
        return ("err", type(e).__name__, str(e))


def in_fresh_child(f):
    r, w = os.pipe()
    pid = os.fork()
    if pid == 0:
        try:
            os.close(r)
            try:
                out = f()
            except BaseException as e:
                out = ("harness-error", repr(e))
            with os.fdopen(w, "wb") as fh:
                pickle.dump(out, fh)
        finally:
            os._exit(0)
    os.close(w)
    with os.fdopen(r, "rb") as fh:
        data = fh.read()
    os.waitpid(pid, 0)
    try:
        return pickle.loads(data)
    except Exception:
        return ("harness-error", "child died")


def history_oracle(i_seed):
    """a sequence of 4-8 calls (constructor, __from__ of a dict or JSON text, the function, attribute assignment; valid and
    invalid inputs), every result's containers written into after the call.  Each call's outcome must be the outcome of the same
    call made as the very first one in a fresh process, and must leave its input as it was"""
    warnings.simplefilter("ignore")
    rng = random.Random(i_seed)
    d = rand_decl(rng)
    try:
        K, fn = declare(d)
    except Exception:
        return None
    plan = [plan_call(rng, d) for _ in range(rng.randint(4, 8))]
    fresh = []
    for kind, seed in plan:
        fresh.append(in_fresh_child(lambda: do_call(K, fn, d, kind, build_input(d, kind, seed), [])))
    state = []
    kinds = {}
    for step, (kind, seed) in enumerate(plan):
        inp = build_input(d, kind, seed)
        before = canon(inp)
        got = do_call(K, fn, d, kind, inp, state)
        kinds[got[0]] = kinds.get(got[0], 0) + 1
        # the containers of fields / parameters declared with element types are rebuilt by the parser: none of them is one
        # of the caller's own objects (an empty one included)
        if got[0] == "ok" and state:
            r = state[-1]
            mine = containers(inp)
            typed = [n for n, t, *_ in d["fields"] if "[" in t] if kind in ("init", "init-dict", "init-dict-kw", "from", "setattr") else \
                    [n for n, t, *_ in d["params"] if "[" in t] if kind == "fn" else []
            for n in typed:
                try:
                    val = r[n] if isinstance(r, dict) and not hasattr(type(r), "__parser__") else getattr(r, n)
                except Exception:
                    continue
                shared = [id(val)] if isinstance(val, (list, dict, set)) and id(val) in mine else []     # the outer container only: elements typed Any pass through
                if shared:
                    return ("input-aliased", "call %d (%s): the value of %r (declared %s) is the caller's own container %r\n-- declaration --\n%s"
                            % (step, kind, n, [t for m, t, *_ in (d["fields"] + d["params"]) if m == n][0], mine[shared[0]], d["src"]), kinds)
        if canon(inp) != before:
            return ("input-mutated", "call %d (%s) changed its input from %r to %r\n-- declaration --\n%s" % (step, kind, before, canon(inp), d["src"]), kinds)
        if fresh[step][0] == "harness-error":
            continue
        if got != fresh[step]:
            return ("history", "call %d (%s, input %r) after %r gives %r; as the first call of a fresh process it gives %r\n-- declaration --\n%s"
                    % (step, kind, build_input(d, kind, seed), plan[:step], got, fresh[step], d["src"]), kinds)
        if state:
            r = state[-1]
            mutate_deep(r if not hasattr(type(r), "__parser__") or isinstance(r, dict) else field_values(r, [f[0] for f in d["fields"]]), "MUT%d" % step)
    return ("ok", None, kinds)


def main(tier, seed):
    warnings.simplefilter("ignore")
    res = core.Result(PID, tier, seed)
    core.prove(res, PID)
    findings.replay_all(res, PID, {})
    rng = random.Random(seed * 191 + 19)
    if core.build(["Model/Heap.vo", "Model/Validators.vo"])["ok"]:
        copy_suite(res, rng, 1500 if tier == "quick" else 30000)
    n = 1200 if tier == "quick" else 20000
    outs = core.pool_map(aliasing_oracle, [seed * 1000003 + i for i in range(n)])
    bad = [o for o in outs if isinstance(o, str)]
    res.add_suite("default-aliasing", n, n, ["seeded declarations: a data class (Schema / DataClass, optional nested class, class options) and a "
                                            "parsed function, 1-4 fields / parameters each with a mutable default"],
                  "fields and parameters typed list / dict / set / tuple / Any / List[int] / List[List[int]] / Dict[str, List[int]] / ... with "
                  "nested mutable defaults spelt as a plain value, Field(default=), Field(default_factory=) of a constructor or of a function "
                  "returning one shared object, deferred or not: three results from defaults only, every container of each written into "
                  "through the raw list / set / dict methods; identities (id()) and values of results, default objects, shared factory "
                  "objects compared",
                  dict(failures=len(bad)))
    for o in bad[:3]:
        res.violations.append(dict(case=repr(dict(kind="default-aliasing")), observed=o, what=o))
    n = 500 if tier == "quick" else 8000
    outs = core.pool_map(history_oracle, [seed * 1000033 + i for i in range(n)], soft=10.0, hard=60.0)
    agg = {}
    bad = []
    for o in outs:
        if isinstance(o, tuple) and len(o) == 3:
            for k, v in o[2].items():
                agg[k] = agg.get(k, 0) + v
            if o[0] != "ok":
                bad.append(o)
    res.add_suite("history", n, n, ["seeded declarations as above, 4-8 calls each"],
                  "call sequences mixing constructor, __from__ (dict / JSON text), plain / generator / async / async-generator function calls "
                  "(default, collect_errors and eager options; rejected arguments and rejected yields) and attribute assignment with valid and "
                  "invalid inputs over nested containers; results written into between calls; each outcome (value with exact types, or "
                  "error type and message) compared with the same call made first in a freshly forked process; each input compared "
                  "with its deep snapshot",
                  dict(failures=len(bad), call_outcomes=agg))
    for o in bad[:3]:
        res.violations.append(dict(case=repr(dict(kind=o[0])), observed=o[1], what=o[1]))
    return core.finish(res, "make -C coq Props/C19.vo && coqc (Print Assumptions audit)", "see suites", search=None,
                       level_note="partial: the copy of a default value (same value, old heap untouched, no shared container, writes through one copy "
                               "invisible through the source and other copies) is proved for every object graph; that parsing applies it to "
                               "every default, leaves inputs alone and keeps no state between calls is decided on the implementation by "
                               "the aliasing and history suites")


def replay(path):
    import json as _j
    d = _j.loads(open(path).read())
    print(_j.dumps(d, indent=1)[:4000])
    if "case" not in d:
        r = core.build(["Props/%s.vo" % PID])
        return 0 if r["ok"] else 1
    return 1
