"""C01 — parsed results always conform to the declared type and constraints."""
import random, re, warnings
from decimal import Decimal
from . import core, decl, gen, parsesuite, findings, dc, dcsuite

PID = "C01"
CHECKING = {"gt", "ge", "lt", "le", "regex", "multiple_of", "max_digits", "length", "max_length", "min_length",
            "unique_items", "enum"}


def holds(name, b, w):
    """documented sense of one strict constraint on the result (independent of the validator code)"""
    if name == "gt": return w > b
    if name == "ge": return w >= b
    if name == "lt": return w < b
    if name == "le": return w <= b
    if name in ("length", "max_length", "min_length"):
        n = len(w) if hasattr(w, "__len__") else len(str(w))
        return {"length": n == b, "max_length": n <= b, "min_length": n >= b}[name]
    if name == "regex": return bool(re.fullmatch(b, str(w)))
    if name == "enum": return w in b
    if name == "multiple_of":
        return True if isinstance(w, float) else not (w % b)
    if name == "max_digits":
        d = w if isinstance(w, Decimal) else Decimal(str(w))
        t = d.as_tuple()
        if not isinstance(t.exponent, int): return False
        nd, e = len(t.digits), t.exponent
        return (nd + e if e >= 0 else max(nd, -e)) <= b
    if name == "unique_items":
        seen = []
        for x in w:
            if x in seen: return False
            seen.append(x)
        return True
    return True


def py_conforms(T, w):
    """None if w conforms to T, else a description of the first non-conformance"""
    from utype.parser.rule import LogicalType, Rule
    from utype.parser.cls import ClassParser
    import typing
    if T is typing.Any or T is Rule:
        return None
    if isinstance(T, LogicalType):
        if T.combinator:
            args = list(T.args)
            if T.combinator in ("|", "^"):
                msgs = [py_conforms(a, w) for a in args]
                return None if any(m is None for m in msgs) else "conforms to no argument of %r (%s)" % (T, msgs[0])
            if T.combinator == "&":
                return py_conforms(args[-1], w) if args else None
            return None
        if isinstance(getattr(T, "__parser__", None), ClassParser):
            return None if isinstance(w, T) else "%r is not an instance of %s" % (w, T.__name__)
        vals = list(T.__validators__)
        transforming = any(f.__name__.startswith("lax_") or k not in CHECKING for k, b, f in vals)
        if transforming:
            return None      # C01's statement for value-transforming constraints is cf_rule_transforming (see C02/C03)
        origin = T.__origin__
        if origin is not None and w is None:
            return py_conforms(origin, None)
        if isinstance(origin, type) and not isinstance(origin, LogicalType):
            if not isinstance(w, origin):
                return "%r is not an instance of the source type %s" % (w, origin.__name__)
        args = T.__args__ or ()
        if args and isinstance(origin, type):
            if issubclass(origin, dict):
                for k, x in w.items():
                    m = py_conforms(args[0], k) or (py_conforms(args[1], x) if len(args) > 1 else None)
                    if m: return "item %r: %s" % (k, m)
            elif issubclass(origin, tuple) and not T.__ellipsis_args__:
                if len(w) < len(args): return "tuple %r shorter than declared" % (w,)
                for a, x in zip(args, w):
                    m = py_conforms(a, x)
                    if m: return m
            elif issubclass(origin, (list, tuple, set, frozenset)):
                for x in w:
                    m = py_conforms(args[0], x)
                    if m: return m
        for k, b, f in vals:
            try:
                if not holds(k, b, w):
                    return "%r violates %s=%r" % (w, k, b)
            except Exception as e:
                return "%r cannot be judged against %s=%r (%s)" % (w, k, b, type(e).__name__)
        return None
    if isinstance(T, type):
        return None if isinstance(w, T) else "%r is not an instance of %s" % (w, T.__name__)
    return None


SAFE_KEYS = ("invalid_items", "invalid_keys", "invalid_values")


def unsafe(opts):
    return any(opts.get(k) == "preserve" for k in SAFE_KEYS) or opts.get("ignore_constraints")


def run_conf(case):
    import utype
    from utype.utils.transform import type_transform
    warnings.simplefilter("ignore")
    try:
        T = parsesuite.build(case["spec"])
        o = utype.Options(**case["options"])
    except Exception:
        return ("config-error",)
    try:
        r = type_transform(case["value"], T, o)
    except Exception:
        return ("rejected",)
    m = py_conforms(T, r)
    return ("ok",) if m is None else ("nonconforming", repr(r), m)


def lax_kind_finding():
    from utype import Rule, Lax
    class R(float, Rule):
        ge = Lax(3)
    return type(R(1.5)) is int


def abstract_generic_finding():
    import warnings
    from typing import Sequence
    from utype import Rule
    from utype.utils.transform import type_transform
    warnings.simplefilter("ignore")
    r = type_transform(["1", "2"], Rule.parse_annotation(Sequence[int]))
    return list(r) == ["1", "2"]


def conf_suite(res, tier, seed):
    rng = random.Random(seed * 37 + 101)
    n = 6000 if tier == "quick" else 100000
    cases = []
    while len(cases) < n:
        c = parsesuite.gen_case(rng) if len(cases) % 3 else parsesuite.gen_union_case(rng)
        if not unsafe(c["options"]):
            cases.append(c)
    outs = core.pool_map(run_conf, cases)
    kinds = {}
    for o in outs:
        kinds[o[0]] = kinds.get(o[0], 0) + 1
    acc = [(c, o) for c, o in zip(cases, outs) if o[0] in ("ok", "nonconforming")]
    for c, o in acc:
        if o[0] == "nonconforming":
            res.violations.append(dict(case=repr(c), observed=o[1], what="result does not conform: " + o[2]))
    res.add_suite("conform-oracle", len(cases), len({repr((c["spec"], sorted(c["options"].items()), c["value"])) for c, _ in acc}),
                  [dict(case=repr(acc[0][0]))] if acc else [],
                  "random (type, safe options, value); every accepted result is judged by an independent conformance "
                  "predicate (isinstance, per-element recursion, documented sense of strict constraints); non-trivial = accepted",
                  dict(outcomes=kinds))


def subclass_case(i_seed):
    """user subclasses of int / str / float / Decimal / list / set / dict / tuple as declared types (bare, as element and value
    types, as a Rule origin with a constraint, as a data-class field and a function parameter / return): whatever input is
    accepted, every place declared with the subclass must hold an instance of it"""
    import warnings, enum
    warnings.simplefilter("ignore")
    import utype
    from utype import Schema, Rule, Options
    from utype.utils.transform import type_transform
    from typing import List, Dict, Optional, Tuple
    rng = random.Random(i_seed)
    base = rng.choice([int, int, str, float, Decimal, list, set, dict, tuple])
    Sub = type("Sub" + base.__name__.capitalize(), (base,), {})

    class En(enum.Enum):
        A = 7
        B = "b"
    scal = [7, "7", 7.0, True, False, "true", "false", "on", "no", b"7", "7.0", Decimal("7"), En.A, En.B, None, "", " 5 ", "1e2", 0, -3, 2.5]
    wrap1 = lambda v: rng.choice([[v], (v,), {v} if not isinstance(v, (list, dict, set)) else [v]])
    pool = scal + [[1, 2], (1,), {1}, {"a": 1}, [("a", 1)], "a=1", '{"a": 1}', "[1, 2]", "ab", b"ab"]
    v = rng.choice(pool)
    if rng.random() < 0.3:
        v = wrap1(v)
    shape = rng.choice(["bare", "list", "dict", "optional", "tuple", "rule", "field", "param", "return"])
    opts = Options(**rng.choice([{}, {}, {"no_explicit_cast": True}, {"no_data_loss": True}]))

    def check(x, where):
        return None if isinstance(x, Sub) else "%s holds %r of type %s, not an instance of the declared %s(%s)" % (where, x, type(x).__name__, Sub.__name__, base.__name__)
    try:
        if shape == "bare":
            r = type_transform(v, Sub, options=opts); bad = check(r, "the result")
        elif shape == "list":
            r = type_transform([v, v], Rule.parse_annotation(List[Sub]), options=opts); bad = next((b for b in (check(x, "an element") for x in r) if b), None)
        elif shape == "dict":
            r = type_transform({"k": v}, Rule.parse_annotation(Dict[str, Sub]), options=opts); bad = check(r["k"], "a value")
        elif shape == "optional":
            r = type_transform(v, Rule.parse_annotation(Optional[Sub]), options=opts); bad = None if r is None else check(r, "the result")
        elif shape == "tuple":
            r = type_transform([v, 1], Rule.parse_annotation(Tuple[Sub, int]), options=opts); bad = check(r[0], "item 0")
        elif shape == "rule":
            cons = {int: {"ge": -100}, float: {"ge": -100}, Decimal: {"ge": -100}, str: {"max_length": 50}}.get(base, {"max_length": 50})
            R = Rule.annotate(Sub, constraints=cons)
            r = type_transform(v, R, options=opts); bad = check(r, "the result")
        elif shape == "field":
            K = type("SubHolder", (Schema,), {"__annotations__": {"f": Sub, "fs": List[Sub]}, "fs": utype.Field(default_factory=list), "__options__": opts})
            k = K(f=v, fs=[v]); bad = check(k.f, "field f") or next((b for b in (check(x, "an element of fs") for x in k.fs) if b), None)
        elif shape == "param":
            seen = []

            @utype.parse(options=opts)
            def fn(a: Sub):
                seen.append(a)
                return a
            fn(v); bad = check(seen[0], "parameter a")
        else:
            @utype.parse(options=opts)
            def fn2(a) -> Sub:
                return a
            r = fn2(v); bad = check(r, "the return value")
    except Exception as e:
        return ("rejected", shape, base.__name__)
    if bad:
        return ("nonconforming", "%s (input %r, shape %s, options %r)" % (bad, v, shape, opts), base.__name__)
    return ("ok", shape, base.__name__)


def originless_case(i_seed):
    """(a) Rules that declare constraints but no origin type (enum / const / regex / length only), bare and as element, value
    and field types: an accepted result satisfies the constraint; (b) a plain user class without a converter as element /
    value / field type under unresolved_types throw / init: an accepted result holds instances of the class"""
    import warnings, re
    warnings.simplefilter("ignore")
    import utype
    from utype import Schema, Rule, Options, Field
    from utype.utils.transform import type_transform
    from typing import List, Dict, Optional, Tuple, Mapping
    rng = random.Random(i_seed)
    vals = [None, "WARN", "warn", 1, "1", True, 0, "", "abc", "abcd", [1], b"abc", 2.5, "a-b"]
    v = rng.choice(vals)
    if rng.random() < 0.55:
        kind = rng.choice(["enum", "const", "regex", "length", "max_length"])
        cons = {"enum": {"enum": ["WARN", "ERROR", 1]}, "const": {"const": 1}, "regex": {"regex": "[a-z]+"},
                "length": {"length": 3}, "max_length": {"max_length": 3}}[kind]
        R = type("NoOrigin", (Rule,), dict(cons))

        def sat(x):
            if kind == "enum": return any(x == m and type(x) is type(m) or x == m for m in cons["enum"]) and x is not None
            if kind == "const": return x == 1 and x is not None
            if kind == "regex": return x is not None and re.fullmatch("[a-z]+", str(x)) is not None
            if kind == "length": return hasattr(x, "__len__") and len(x) == 3 or (not hasattr(x, "__len__") and x is not None and len(str(x)) == 3)
            return x is not None and len(x if hasattr(x, "__len__") else str(x)) <= 3
        shape = rng.choice(["bare", "list", "dict", "field", "field-noann"])
        try:
            if shape == "bare":
                got = [R(v)]
            elif shape == "list":
                got = list(type_transform([v, "abc"], Rule.parse_annotation(List[R])))[:1]
            elif shape == "dict":
                got = [type_transform({"a": v}, Rule.parse_annotation(Dict[str, R]))["a"]]
            elif shape == "field":
                K = type("NoH", (Schema,), {"__annotations__": {"f": R}})
                got = [K(f=v).f]
            else:
                K = type("NoH2", (Schema,), {"f": Field(**cons)})
                got = [K(f=v).f]
        except Exception:
            return ("rejected", "originless-" + kind)
        for x in got:
            if not sat(x):
                return ("nonconforming", "an origin-less Rule with %r (shape %s) accepted %r and returned %r, which does not satisfy it" % (cons, shape, v, x), "x")
        return ("ok", "originless-" + kind)

    class Point:
        def __init__(self, v):
            if isinstance(v, (list, dict)):
                raise TypeError("no")
            self.v = v
    policy = rng.choice(["throw", "init"])
    opts = Options(unresolved_types=policy)
    val = rng.choice([5, "x", None, Point(1), [1], 2.5])
    shape = rng.choice(["dict", "mapping", "list", "tuple", "nested", "field", "param"])
    try:
        if shape == "dict":
            got = list(type_transform({"a": val}, Rule.parse_annotation(Dict[str, Point]), options=opts).values())
        elif shape == "mapping":
            got = list(type_transform({"a": val}, Rule.parse_annotation(Mapping[str, Point]), options=opts).values())
        elif shape == "list":
            got = list(type_transform([val], Rule.parse_annotation(List[Point]), options=opts))
        elif shape == "tuple":
            got = [type_transform([val, 1], Rule.parse_annotation(Tuple[Point, int]), options=opts)[0]]
        elif shape == "nested":
            got = list(type_transform({"x": {"a": val}}, Rule.parse_annotation(Dict[str, Dict[str, Point]]), options=opts)["x"].values())
        elif shape == "field":
            K = type("PtH", (Schema,), {"__annotations__": {"p": Dict[str, Point], "q": List[Point]}, "q": Field(default_factory=list), "__options__": opts})
            k = K(p={"a": val}, q=[val])
            got = list(k.p.values()) + list(k.q)
        else:
            seen = []

            @utype.parse(options=opts)
            def fn(p: Dict[str, Point]):
                seen.append(p)
            fn({"a": val})
            got = list(seen[0].values())
    except Exception:
        return ("rejected", "unresolved-" + policy)
    for x in got:
        if not isinstance(x, Point):
            return ("nonconforming", "a place declared as the plain class Point (no converter, unresolved_types=%r, shape %s) holds %r" % (policy, shape, x), "x")
    return ("ok", "unresolved-" + policy)


def originless_suite(res, tier, seed):
    n = 3000 if tier == "quick" else 50000
    outs = core.pool_map(originless_case, [seed * 1000187 + i for i in range(n)])
    agg, bad = {}, []
    for o in outs:
        if isinstance(o, tuple):
            agg[o[0] + ":" + (o[1] if o[0] != "nonconforming" else "")] = agg.get(o[0] + ":" + (o[1] if o[0] != "nonconforming" else ""), 0) + 1
            if o[0] == "nonconforming":
                bad.append(o[1])
    res.add_suite("originless-unresolved", n, n, ["seeded: Rules without an origin type; a plain class without a converter as element / value / field / parameter type"],
                  "Rules declaring only enum / const / regex / length / max_length (bare, List element, Dict value, annotated and "
                  "un-annotated Schema field) over inputs including None: an accepted result satisfies the constraint; a plain user class "
                  "as Dict / Mapping value, List element, Tuple item, nested value, Schema field and function parameter type under "
                  "unresolved_types throw / init: every accepted place holds an instance of the class", dict(failures=len(bad), outcomes=agg))
    for m in bad[:3]:
        res.violations.append(dict(case=repr(dict(kind="originless-unresolved")), observed=m, what=m))


def subclass_suite(res, tier, seed):
    n = 4000 if tier == "quick" else 60000
    outs = core.pool_map(subclass_case, [seed * 1000081 + i for i in range(n)])
    agg = {}
    bad = []
    for o in outs:
        if isinstance(o, tuple):
            agg[o[0]] = agg.get(o[0], 0) + 1
            if o[0] == "nonconforming":
                bad.append(o[1])
    res.add_suite("subclass-targets", n, n, ["seeded: subclass of int / str / float / Decimal / list / set / dict / tuple x 9 shapes x inputs"],
                  "user subclasses of the builtin targets as declared types (bare, List / Dict / Optional / Tuple element, Rule origin with a "
                  "constraint, Schema field, function parameter and return), inputs over scalars in every accepted spelling (numbers, "
                  "texts, true / false words, bytes, Decimal, Enum members, single-item collections) and containers, 3 option sets: every "
                  "accepted input must leave an instance of the declared subclass in every declared place",
                  dict(failures=len(bad), outcomes=agg))
    for m in bad[:3]:
        res.violations.append(dict(case=repr(dict(kind="subclass-target")), observed=m, what=m))


def main(tier, seed):
    res = core.Result(PID, tier, seed)
    core.prove(res, PID)
    rng = random.Random(seed * 53 + 1)
    n = 5000 if tier == "quick" else 80000
    cases = [parsesuite.gen_case(rng) if i % 3 else parsesuite.gen_union_case(rng) for i in range(n)]
    parsesuite.run_suite(res, cases, "parse")
    conf_suite(res, tier, seed)
    subclass_suite(res, tier, seed)
    originless_suite(res, tier, seed)
    findings.replay_all(res, PID, {"C01-lax-kind": lax_kind_finding, "C01-abstract-generic-args": abstract_generic_finding})
    res.violations = res.violations[:3]
    return core.finish(res, "make -C coq Props/C01.vo && coqc (Print Assumptions audit)", "see suites", search=None,
                       level_note="C01_conform is proved for the whole parse calculus of Model/Parse.v (tied to /repo by the parse "
                                  "correspondence suite of this run); for declarations with value-transforming constraints (const, "
                                  "decimal_places, Lax) the statement is vacuous (cf_rule_transforming) and a refutation is proved; "
                                  "field-level conformance of data-class contents and function parameters: see C05/C08")


def replay(path):
    import json
    d = json.loads(open(path).read())
    if "case" not in d:
        print(json.dumps(d, indent=1)[:4000])
        r = core.build(["Props/%s.vo" % PID])
        return 0 if r["ok"] else 1
    c = eval(d["case"], {"Decimal": Decimal, "inf": float("inf"), "nan": float("nan")})
    o = run_conf(c)
    print("case:", c, "\n->", o)
    return 1 if o[0] == "nonconforming" else 0
