"""C11 — exclude/preserve policies touch only the offending elements."""
import random, warnings, itertools
from decimal import Decimal
from . import core, decl, gen, parsesuite, dyn

PID = "C11"
ELEMS = ["int", "posint", "month", "digits", "const5", "enum_ab", "shortstr", "bfloat", "bool"]
POL = ["throw", "exclude", "preserve"]


def gen_case(rng):
    kind = rng.choice(["list", "set", "vtuple", "dict", "dict"])
    e = ("leaf", rng.choice(ELEMS))
    if kind == "dict":
        spec = ("dict", ("leaf", rng.choice(["int", "digits", "posint", "enum_ab"])), e)
    else:
        spec = (kind, e) if kind != "list" else ("list", e, {})
    opts = dict(invalid_items=rng.choice(POL), invalid_keys=rng.choice(POL), invalid_values=rng.choice(POL))
    if rng.random() < 0.2:
        opts["collect_errors"] = True
    v = decl.valid_value(rng, spec)
    if rng.random() < 0.7:
        v = decl.mutate(rng, v)
    if kind in ("list", "set", "vtuple") and isinstance(v, (list, tuple)) and rng.random() < 0.5:
        v = list(v) + [gen.scalar(rng) for _ in range(rng.randint(1, 2))]
    return dict(spec=spec, options=opts, value=v)


def parse_with(case, **over):
    import utype
    from utype.utils.transform import type_transform
    warnings.simplefilter("ignore")
    T = parsesuite.build(case["spec"])
    o = utype.Options(**dict(case["options"], **over))
    try:
        return ("ok", type_transform(case["value"], T, o))
    except Exception as e:
        return core.classify_exc(e)


def elem_ok(spec, opts, x):
    import utype
    from utype.utils.transform import type_transform
    try:
        return ("ok", type_transform(x, parsesuite.build(spec), utype.Options(**opts)))
    except Exception:
        return ("bad",)


def oracle(case):
    """the property on the implementation for one-level containers of scalar types"""
    spec, opts, v = case["spec"], case["options"], case["value"]
    kind = spec[0]
    base = {k: x for k, x in opts.items() if not k.startswith("invalid_")}
    r = parse_with(case)
    if r[0] not in ("ok", "parse"):
        return "unexpected outcome %r" % (r,)
    if kind in ("list", "set", "vtuple"):
        origin = {"list": list, "set": set, "vtuple": tuple}[kind]
        if not isinstance(v, (list, tuple, set)) or (kind == "set" and not isinstance(v, set) and len(set(map(repr, v))) != len(v)):
            return None
        try:
            items = list(origin(v)) if kind == "set" else list(v)     # the container conversion comes first
        except TypeError:
            return None      # not convertible to the container at all (unhashable members of a set)
        res = [elem_ok(spec[1], base, x) for x in items]
        pol = opts["invalid_items"]
        if pol == "throw":
            want_ok = all(x[0] == "ok" for x in res)
            if (r[0] == "ok") != want_ok:
                return "throw: verdict %r but element verdicts %r" % (r[0], [x[0] for x in res])
            return None
        if r[0] != "ok":
            return "policy %s rejected the container: %r" % (pol, r)
        if pol == "exclude":
            want = [x[1] for x in res if x[0] == "ok"]
        else:
            want = [x[1] if x[0] == "ok" else y for x, y in zip(res, items)]
        try:
            want = origin(want)
        except TypeError:
            return None
        if kind == "set" and isinstance(v, set):
            same = r[1] == want
        else:
            same = r[1] == want
        if not same:
            return "policy %s: got %r, expected %r (strict parse of the input with the offending elements %s)" % (
                pol, r[1], want, "removed" if pol == "exclude" else "put back")
        return None
    if kind == "dict":
        if not isinstance(v, dict):
            return None
        pk, pv = opts["invalid_keys"], opts["invalid_values"]
        want, bad = {}, False
        for k0, v0 in v.items():
            kr = elem_ok(spec[1], base, k0)
            if kr[0] == "ok":
                k = kr[1]
            elif pk == "preserve":
                k = k0
            elif pk == "exclude":
                continue
            else:
                bad = True
                continue
            vr = elem_ok(spec[2], base, v0)
            if vr[0] == "ok":
                want[k] = vr[1]
            elif pv == "preserve":
                want[k] = v0
            elif pv == "exclude":
                continue
            else:
                bad = True
        if bad:
            return None if r[0] == "parse" else "an offending key/value under 'throw' was accepted: %r" % (r,)
        if r[0] != "ok":
            return "policies (%s,%s) rejected the mapping: %r" % (pk, pv, r)
        if r[1] != want:
            return "policies (%s,%s): got %r, expected %r" % (pk, pv, r[1], want)
        return None
    return None


def field_suite(res, rng, tier):
    """per-field on_error: required never excluded, optional takes default / stays absent, preserve keeps input"""
    bad = []
    n = 0
    warnings.simplefilter("ignore")
    for fpol in [None] + list(POL):
      for opol in [None] + list(POL):
        # the field's own policy, when given, wins over the policy of the options (the class's here); 'throw' is a policy too
        pol = fpol or opol or "throw"
        for required in (True, False):
            for has_default in (True, False):
                if required and has_default:
                    continue
                if required and fpol == "exclude":
                    continue     # Field(required=True, on_error='exclude') is refused at declaration; the class-level policy is not
                name = dyn.fresh("Fld")
                fargs = []
                if fpol:
                    fargs.append("on_error=%r" % fpol)
                if not required:
                    fargs.append("required=False")
                if has_default:
                    fargs.append("default=7")
                src = ("class %s(Schema):\n%s    a: int\n    f: PositiveInt%s\n"
                       % (name, "    __options__ = Options(invalid_values=%r)\n" % opol if opol else "",
                          " = Field(%s)" % ", ".join(fargs) if fargs else ""))
                dyn.declare(src)
                cls = dyn.get(name)
                for val in [5, "3", 0, -2, "x"]:
                    n += 1
                    good = val in (5, "3")
                    try:
                        inst = cls(a=1, f=val)
                        out = ("ok", dict(inst))
                    except Exception as e:
                        out = core.classify_exc(e)
                    if good:
                        want = ("ok", {"a": 1, "f": int(val)})
                    elif pol == "throw" or (pol == "exclude" and required):
                        want = ("parse",)
                    elif pol == "exclude":
                        want = ("ok", {"a": 1, "f": 7} if has_default else {"a": 1})
                    else:
                        want = ("ok", {"a": 1, "f": val})
                    if out != want:
                        bad.append(dict(src=src, value=val, got=repr(out), want=repr(want)))
    res.add_suite("field-on-error", n, n, [dict(policy="exclude", required=True, value=0, expect="ParseError")],
                  "every field on_error policy (or none) x every class-level invalid_values policy (or none) x required/optional x with/without default x valid/invalid values for one field: the field's own policy wins",
                  dict(failures=len(bad)))
    for b in bad[:2]:
        res.violations.append(dict(case=repr(b), observed=b["got"], what="field on_error: expected %s" % b["want"]))



def addition_suite(res):
    """typed additional keys (Options(addition=int)) under every pair (declared invalid_values, runtime invalid_values):
    the policy of the options the parse runs with decides, for the extra keys as for the fields of the same parse"""
    import utype
    bad, n = [], 0
    warnings.simplefilter("ignore")
    for dpol in [None] + list(POL):
        name = dyn.fresh("Add")
        src = "class %s(Schema):\n    __options__ = Options(addition=int%s)\n    a: int\n    b: int = 0\n" % (
            name, ", invalid_values=%r" % dpol if dpol else "")
        dyn.declare(src)
        cls = dyn.get(name)
        for rpol in [None] + list(POL):
            for dfs in (None, True, False):
                kw = dict(addition=int)
                if rpol:
                    kw["invalid_values"] = rpol
                if dfs is not None:
                    kw["data_first_search"] = dfs
                ro = utype.Options(**kw) if (rpol or dfs is not None) else None
                pol = (rpol or "throw") if ro is not None else (dpol or "throw")
                for data in ({"a": "1", "good": "2", "bad": "zz"}, {"a": 1, "b": "x", "bad": "zz", "good": 3}, {"a": 1, "good": "7"}):
                    n += 1
                    try:
                        out = ("ok", dict(cls.__from__(dict(data), options=ro)))
                    except Exception as e:
                        out = core.classify_exc(e)
                    invalid = "bad" in data or data.get("b") == "x"
                    if not invalid:
                        want = ("ok", {"a": 1, "b": 0, "good": 7})
                    elif pol == "throw":
                        want = ("parse",)
                    else:
                        w = {"a": 1}
                        if data.get("b") == "x":
                            w["b"] = 0 if pol == "exclude" else "x"
                        else:
                            w["b"] = 0
                        w["good"] = int(data["good"])
                        if pol == "preserve":
                            w["bad"] = "zz"
                        want = ("ok", w)
                    if out[0] != want[0] or (out[0] == "ok" and out[1] != want[1]):
                        bad.append(dict(src=src, runtime=kw if ro is not None else None, data=data, got=repr(out), want=repr(want)))
    res.add_suite("typed-addition-policies", n, n, [dict(declared=None, runtime="exclude", data={"a": "1", "good": "2", "bad": "zz"},
                                                        expect={"a": 1, "b": 0, "good": 2})],
                  "a class with typed additional keys x declared policy x runtime policy x lookup strategy x three inputs: the extra "
                  "keys follow the policy of the options the parse runs with, like the fields", dict(failures=len(bad)))
    for b in bad[:2]:
        res.violations.append(dict(case=repr(b), observed=b["got"], what="typed additional keys: expected %s" % b["want"]))

def removal_case(i_seed):
    """class-level invalid_values='exclude': the outcome is that of the throwing class on the input with the offending fields'
    keys removed (so a dependency on an excluded field is a missing dependency, a required excluded field is an absence)"""
    import re as _re
    from . import fieldgen
    from utype.utils import exceptions as exc
    warnings.simplefilter("ignore")
    rng = random.Random(i_seed)
    for _ in range(20):
        name, src, fields, okw = fieldgen.rand_class(rng, theme="deps-exclude")
        if "preserve" in src:
            continue
        okw = {k: v for k, v in okw.items() if k not in ("invalid_values", "collect_errors", "max_errors", "ignore_required", "force_default", "no_default", "defer_default", "max_params", "min_params")}
        lines = [l for l in src.rstrip("\n").split("\n") if "__options__" not in l]
        lines = [_re.sub(r",? ?on_error='\w+'", "", l).replace("Field(, ", "Field(") for l in lines]
        names = []
        try:
            for pol in ("throw", "exclude"):
                n2 = dyn.fresh("Rm")
                ls = list(lines)
                ls[0] = _re.sub(r"class \w+\(", "class %s(" % n2, ls[0], 1)
                ls.insert(1, "    __options__ = Options(%s)" % ", ".join("%s=%r" % kv for kv in dict(okw, invalid_values=pol).items()))
                dyn.declare("\n".join(ls) + "\n")
                names.append(n2)
        except Exception:
            continue
        break
    else:
        return None
    data = fieldgen.rand_input(rng, fields)

    def run(nm, d):
        try:
            r = dyn.get(nm).__from__(d)
            return ("ok", dict(r) if isinstance(r, dict) else {k: v for k, v in r.__dict__.items() if not k.startswith("__")})
        except exc.ParseError as e:
            return ("parse", getattr(e, "item", None), type(e).__name__)
        except Exception as e:
            return ("other", type(e).__name__)
    P = dyn.get(names[0]).__parser__
    seen_f = []
    for k in data:
        f = P.get_field(str(k))
        if f is not None:
            if any(f is g for g in seen_f):
                return None          # two keys of one field: conflict handling is another matter
            seen_f.append(f)
    got = run(names[1], data)
    cur = dict(data)
    want = None
    for _ in range(8):
        w = run(names[0], cur)
        if w[0] != "parse" or w[2] in ("AbsenceError", "DependenciesAbsenceError", "ExceedError", "AliasConflictError", "TooManyParamsError", "TooFewParamsError"):
            want = w
            break
        f = P.get_field(str(w[1])) if w[1] is not None else None
        if f is None:
            want = w
            break
        removed = [k for k in list(cur) if P.get_field(str(k)) is f]
        if not removed:
            want = w
            break
        from utype.utils.datastructures import unprovided as _unp
        if not _unp(f.get_default(P.options, defer=None)):
            return None      # an excluded field with a default takes its default and counts as given: not a plain removal

        for k in removed:
            cur.pop(k)
    if want is None:
        return None
    if got[0] != want[0] or (got[0] == "ok" and repr(got[1]) != repr(want[1])):
        return "%s\nOptions(%r), input %r: excluding gives %r; the throwing class on the input without the offending fields (%r) gives %r" % (
            "\n".join(lines), okw, data, got, cur, want)
    return ("ok", got[0])


def removal_suite(res, tier, seed):
    n = 2500 if tier == "quick" else 40000
    outs = core.pool_map(removal_case, [seed * 1000213 + i for i in range(n)])
    bad = [o for o in outs if isinstance(o, str)]
    agg = {}
    for o in outs:
        if isinstance(o, tuple):
            agg[o[1]] = agg.get(o[1], 0) + 1
    res.add_suite("exclude-is-removal", n, n, ["seeded: fieldgen classes (dependencies, optional / required fields, defaults, aliases, both lookup strategies)"],
                  "a class declared with invalid_values='throw' and 'exclude': the excluding class's outcome must be that of the throwing "
                  "class on the input with the keys of the offending fields removed one after the other (dependencies on an excluded "
                  "field then count as missing, a required excluded field as absent)", dict(failures=len(bad), outcomes=agg))
    for o in bad[:3]:
        res.violations.append(dict(case=repr(dict(kind="exclude-is-removal")), observed=o, what=o))


def varargs_case(i_seed):
    """*args: T follow invalid_items, **kwargs: T and typed additions of a class follow invalid_values, each offending element
    alone: every combination of the two policies"""
    import utype
    from utype.utils import exceptions as exc
    from utype.utils.transform import type_transform
    warnings.simplefilter("ignore")
    rng = random.Random(i_seed)
    pi, pv, pk = (rng.choice(["throw", "exclude", "preserve"]) for _ in range(3))
    t = dyn.fresh("Va")
    ty = rng.choice(["int", "int", "float", "PositiveInt"])
    T = {"int": int, "float": float, "PositiveInt": dyn.PositiveInt}[ty]
    vals = lambda: [rng.choice([1, "2", 3.0, "x", "q", None, [1], 0, -1, "5"]) for _ in range(rng.randint(0, 4))]

    def conv(v):
        try:
            return ("ok", type_transform(v, T))
        except Exception:
            return ("bad",)
    kind = rng.choice(["fn", "fn", "cls"])
    opts = "Options(invalid_items=%r, invalid_values=%r, invalid_keys=%r)" % (pi, pv, pk)
    if kind == "fn":
        src = "@utype.parse(options=%s)\ndef %s(a: int, *rest: %s, **more: %s):\n    return (a, rest, more)\n" % (opts, t, ty, ty)
        dyn.declare(src)
        rest, more = vals(), {("k%d" % j): v for j, v in enumerate(vals())}
        try:
            got = ("ok", dyn.get(t)(1, *rest, **more))
        except exc.ParseError:
            got = ("parse",)
        except Exception as e:
            return "%s\ncall (1, *%r, **%r): a non-ParseError escaped: %r" % (src, rest, more, e)
        want_rest, want_more, fail = [], {}, False
        for v in rest:
            c = conv(v)
            if c[0] == "ok": want_rest.append(c[1])
            elif pi == "throw": fail = True
            elif pi == "preserve": want_rest.append(v)
        for k, v in more.items():
            c = conv(v)
            if c[0] == "ok": want_more[k] = c[1]
            elif pv == "throw": fail = True
            elif pv == "preserve": want_more[k] = v
        want = ("parse",) if fail else ("ok", (1, tuple(want_rest), want_more))
        if repr(got) != repr(want):
            return "%s\ncall (1, *%r, **%r) gives %r; element by element (items follow invalid_items, keyword extras invalid_values) it should be %r" % (src, rest, more, got, want)
        return ("ok", got[0])
    src = "class %s(Schema):\n    __options__ = Options(invalid_items=%r, invalid_values=%r, invalid_keys=%r, addition=%s)\n    a: int = 0\n" % (t, pi, pv, pk, ty)
    dyn.declare(src)
    more = {("k%d" % j): v for j, v in enumerate(vals())}
    try:
        r = dyn.get(t)(**more)
        got = ("ok", {k: v for k, v in dict(r).items() if k != "a"})
    except exc.ParseError:
        got = ("parse",)
    except Exception as e:
        return "%s\ninput %r: a non-ParseError escaped: %r" % (src, more, e)
    want_more, fail = {}, False
    for k, v in more.items():
        c = conv(v)
        if c[0] == "ok": want_more[k] = c[1]
        elif pv == "throw": fail = True
        elif pv == "preserve": want_more[k] = v
    want = ("parse",) if fail else ("ok", want_more)
    if repr(got) != repr(want):
        return "%s\ninput %r gives %r; addition by addition (they follow invalid_values) it should be %r" % (src, more, got, want)
    return ("ok", got[0])


def varargs_suite(res, tier, seed):
    n = 2500 if tier == "quick" else 40000
    outs = core.pool_map(varargs_case, [seed * 1000133 + i for i in range(n)])
    bad = [o for o in outs if isinstance(o, str)]
    agg = {}
    for o in outs:
        if isinstance(o, tuple):
            agg[o[1]] = agg.get(o[1], 0) + 1
    res.add_suite("varargs-additions", n, n, ["seeded: parsed functions with *rest: T, **more: T; Schema with Options(addition=T)"],
                  "typed *args (items), **kwargs and class additions (values) under all 27 policy triples, 0-4 elements each of which is "
                  "also converted alone: offending items are dropped / kept / fatal according to invalid_items, offending extras "
                  "according to invalid_values, the others are converted", dict(failures=len(bad), outcomes=agg))
    for o in bad[:3]:
        res.violations.append(dict(case=repr(dict(kind="varargs")), observed=o, what=o))


def main(tier, seed):
    warnings.simplefilter("ignore")
    res = core.Result(PID, tier, seed)
    core.prove(res, PID)
    rng = random.Random(seed * 97 + 11)
    n = 4000 if tier == "quick" else 60000
    cases = [gen_case(rng) for _ in range(n)]
    parsesuite.run_suite(res, cases, "policies")
    m = 3000 if tier == "quick" else 40000
    ocases = [gen_case(rng) for _ in range(m)]
    outs = core.pool_map(oracle, ocases)
    bad = [(c, o) for c, o in zip(ocases, outs) if isinstance(o, str)]
    hist = {}
    for c in ocases:
        key = (c["spec"][0], c["options"]["invalid_items"], c["options"]["invalid_keys"], c["options"]["invalid_values"])
        hist[key] = hist.get(key, 0) + 1
    res.add_suite("policy-oracle", len(ocases), len({repr(c) for c in ocases}), [repr(ocases[0])],
                  "list / set / variable-length tuple / mapping of scalar element types x the 27 policy triples x inputs with a random "
                  "subset of offending elements; each element is also converted alone and the container result is compared with the "
                  "strict parse of the input with the offending elements removed (exclude) or put back (preserve)",
                  dict(failures=len(bad), policy_triples_covered=len({k[1:] for k in hist}), containers=sorted({k[0] for k in hist})))
    for c, o in bad[:3]:
        res.violations.append(dict(case=repr(c), observed=o, what=o))
    field_suite(res, rng, tier)
    addition_suite(res)
    varargs_suite(res, tier, seed)
    removal_suite(res, tier, seed)
    return core.finish(res, "make -C coq Props/C11.vo && coqc (Print Assumptions audit)", "see suites", search=None,
                       level_note="theorems are about the loops of Model/Parse.v (tied by the policies suite); C11_exclude_is_filter assumes "
                                  "element conversions independent of the policy (element types that are not containers with offending "
                                  "elements of their own); *args / extra keys with a typed addition are outside the model")


def replay(path):
    import json
    d = json.loads(open(path).read())
    if "case" not in d:
        print(json.dumps(d, indent=1)[:4000])
        r = core.build(["Props/%s.vo" % PID])
        return 0 if r["ok"] else 1
    c = eval(d["case"], {"Decimal": Decimal, "inf": float("inf"), "nan": float("nan")})
    if "spec" in c:
        msg = oracle(c)
        print("case:", c, "\n->", msg or "property holds on this case")
        return 1 if msg else 0
    print(c)
    return 1
