"""C02 — validation is exact on well-typed values and agrees with isinstance."""
import random, re, math
from decimal import Decimal
from . import core, decl, gen, genexec, parsesuite

PID = "C02"
ORIGINS = ["int", "float", "Decimal", "str", "list", "tuple"]


def rand_constraints(rng, origin):
    c = {}
    n = rng.choice([1, 1, 2, 2, 3])
    for _ in range(n):
        if origin in ("int", "float", "Decimal"):
            k = rng.choice(["gt", "ge", "lt", "le", "multiple_of", "const", "enum", "max_digits", "decimal_places"])
            mk = {"int": lambda: rng.randint(-5, 20),
                  "float": lambda: rng.choice([0.5, 1.5, 2.0, 10.25, -3.0, 100.0]),
                  "Decimal": lambda: Decimal(rng.choice(["1.5", "2", "10.25", "-3", "100", "0.1"]))}[origin]
            if k in ("gt", "ge", "lt", "le"):
                c[k] = mk() if rng.random() < 0.8 else rng.randint(-5, 20)
            elif k == "multiple_of" and origin != "float":
                c[k] = rng.choice([1, 2, 3, 5, 10])
            elif k == "const":
                # (a bool const on an int type: equal to 1 / 0 but of another class, in the direction where the const is the subclass)
                c[k] = mk() if (origin != "int" or rng.random() < 0.8) else rng.choice([True, False])
            elif k == "enum":
                c[k] = [mk() for _ in range(rng.randint(1, 3))]
            elif k == "max_digits":
                c[k] = rng.choice([1, 2, 3, 4, 5])
            elif k == "decimal_places" and origin != "int":
                c[k] = rng.choice([0, 1, 2, 3])
        elif origin == "str":
            k = rng.choice(["length", "max_length", "min_length", "regex", "const", "enum"])
            if k in ("length", "max_length", "min_length"):
                c[k] = rng.choice([0, 1, 2, 3, 4])
            elif k == "regex":
                c[k] = rng.choice(genexec.REGEXES)
            elif k == "const":
                c[k] = rng.choice(["a", "ab", "", "12"])
            else:
                c[k] = [rng.choice(["a", "b", "ab", "1"]) for _ in range(rng.randint(1, 3))]
        else:
            k = rng.choice(["length", "max_length", "min_length", "unique_items", "contains"])
            if k in ("length", "max_length", "min_length"):
                c[k] = rng.choice([0, 1, 2, 3])
            elif k == "unique_items":
                c[k] = True
            else:
                c["contains"] = rng.choice(["int", "str", "posint"])
                if rng.random() < 0.5:
                    c["min_contains"] = rng.choice([1, 2])
                if rng.random() < 0.5:
                    c["max_contains"] = rng.choice([1, 2, 3])
    return c


def typed_value(rng, origin, cons):
    bounds = [v for k, v in cons.items() if k in ("gt", "ge", "lt", "le", "const")]
    for k in ("enum",):
        if k in cons:
            bounds.extend(cons[k])
    if origin == "int":
        b = rng.choice(bounds) if bounds and rng.random() < 0.7 else rng.randint(-10, 30)
        try:
            base = int(b)
        except Exception:
            base = 0
        return base + rng.choice([0, 0, 1, -1, 2, -2, 10])
    if origin == "float":
        b = rng.choice(bounds) if bounds and rng.random() < 0.7 else rng.choice(gen.FLOATS)
        b = float(b)
        if math.isnan(b) or math.isinf(b):
            return b
        return rng.choice([b, math.nextafter(b, math.inf), math.nextafter(b, -math.inf), b + 1, b - 1, b + 0.5,
                           float("nan"), float("inf")])
    if origin == "Decimal":
        b = rng.choice(bounds) if bounds and rng.random() < 0.6 else Decimal(rng.choice(gen.DECS))
        b = Decimal(b)
        if not b.is_finite():
            return b
        return rng.choice([b, b + Decimal("0.01"), b - Decimal("0.01"), b + 1, b - 1, b.quantize(Decimal("0.001")),
                           b.normalize(), Decimal("123.456"), Decimal("99.95"), Decimal("1E+3")])
    if origin == "str":
        return rng.choice(gen.STRS + ["ab", "abc", "abcd", "b", "aab", "xyz"])
    xs = [rng.choice([1, 1.0, True, 2, "a", "b", 0, -1, 5, "1"]) for _ in range(rng.randint(0, 4))]
    return xs if origin == "list" else tuple(xs)


def gen_case(rng):
    origin = rng.choice(ORIGINS)
    cons = rand_constraints(rng, origin)
    return dict(origin=origin, cons=cons, value=typed_value(rng, origin, cons))


_types = {}


def build(case):
    from utype import Rule
    key = repr((case["origin"], sorted(case["cons"].items(), key=lambda kv: kv[0])))
    if key not in _types:
        cons = dict(case["cons"])
        if "contains" in cons:
            cons["contains"] = decl.build_leaf(cons["contains"])
        o = {"int": int, "float": float, "Decimal": Decimal, "str": str, "list": list, "tuple": tuple}[case["origin"]]
        try:
            _types[key] = Rule.annotate(o, constraints=cons)
        except Exception as e:
            _types[key] = e
    return _types[key]


def run_impl(case):
    import warnings
    warnings.simplefilter("ignore")
    T = build(case)
    if isinstance(T, Exception):
        return ("config-error", type(T).__name__)
    try:
        r = ("ok", T(case["value"]))
    except Exception as e:
        r = core.classify_exc(e)
    try:
        i = ("ok", isinstance(case["value"], T))
    except Exception as e:
        i = core.classify_exc(e)
    return ("pair", r, i)


def documented(case):
    """the documented sense of the declared constraints, stated directly (used by the search only):
    returns True/False, or None when the documented sense is not defined for this case"""
    v, cons = case["value"], case["cons"]
    try:
        if "const" in cons:      # const makes the library ignore every other constraint; then enum does
            b = cons["const"]
            if v != b: return False
            return type(v) == type(b) or {type(v), type(b)} in ({int, float}, {int, Decimal})
        if "enum" in cons:
            return v in cons["enum"]
        for k, b in cons.items():
            if k == "gt" and not v > b: return False
            if k == "ge" and not v >= b: return False
            if k == "lt" and not v < b: return False
            if k == "le" and not v <= b: return False
            if k == "length" and len(v) != b: return False
            if k == "max_length" and len(v) > b: return False
            if k == "min_length" and len(v) < b: return False
            if k == "regex" and not re.fullmatch(b, v): return False
            if k == "multiple_of":
                if isinstance(v, float): return None
                if v % b: return False
            if k in ("max_digits", "decimal_places"):
                d = v if isinstance(v, Decimal) else Decimal(str(v))
                if k == "max_digits" and isinstance(v, Decimal) and "decimal_places" in cons and d.is_finite() \
                        and -d.as_tuple().exponent <= cons["decimal_places"]:
                    # documented order: a Decimal is first completed to `decimal_places`, then max_digits is judged
                    d = round(d, cons["decimal_places"])
                if not d.is_finite(): return False
                t = d.as_tuple()
                nd, e = len(t.digits), t.exponent
                digits = nd + e if e >= 0 else max(nd, -e)
                places = 0 if e >= 0 else -e
                if k == "max_digits" and digits > b: return False
                if k == "decimal_places" and places > b: return False
            if k == "unique_items" and b:
                seen = []
                for x in v:
                    if x in seen: return False
                    seen.append(x)
            if k == "contains":
                return None
    except Exception:
        return None
    return True


PRELUDE = """
Definition ccase := (ty * pyval * obs * obs)%type.
Definition obs_b (x : out bool) : obs := observe (omap PBool x).
Definition c_parse (k : ccase) : obs := let '(t, v, _, _) := k in observe (call_type RE (fun _ => None) 30 default_options t v).
Definition c_inst (k : ccase) : obs := let '(t, v, _, _) := k in obs_b (instancecheck RE (fun _ => None) 30 default_options t v).
Definition case_ok (k : ccase) : bool :=
  let '(_, _, e1, e2) := k in obs_sim (c_parse k) e1 && obs_sim (c_inst k) e2.
Definition case_skip (k : ccase) : bool := obs_is_skip (c_parse k) || obs_is_skip (c_inst k).
"""


def rule_suite(res, tier, seed):
    rng = random.Random(seed * 31 + 202)
    n = 4000 if tier == "quick" else 60000
    cases = [gen_case(rng) for _ in range(n)]
    outs = core.pool_map(run_impl, cases)
    world = decl.World()
    enc = world.encoder()
    lines, idx, cfg, unenc = [], [], 0, 0
    strs = set()
    for i, (c, o) in enumerate(zip(cases, outs)):
        if o[0] == "config-error":
            cfg += 1
            continue
        if o[0] != "pair":
            res.broken.append(dict(kind="correspondence", name="rule-exact (harness error)", detail=str(o)[:800]))
            continue
        try:
            T = build(c)
            lines.append("(%s, %s, %s, %s)" % (decl.reflect_type(world, T), enc.val(c["value"]),
                                                core.coq_obs(enc, o[1]), core.coq_obs(enc, o[2])))
            idx.append(i)
            parsesuite.strings_in(c["value"], strs)
        except (core.Unencodable, decl.Unreflectable):
            unenc += 1
    table = parsesuite.regex_oracle([(p, s) for p in genexec.REGEXES + ["[0-9]+"] for s in strs])
    per = 400
    shards = ["Definition RE := %s.\n%s\nDefinition cases : list ccase := [\n%s\n].\n"
              "Goal True. idtac \"MISMATCH\". exact I. Qed.\nEval vm_compute in (bad_idx case_ok cases).\n"
              "Goal True. idtac \"SKIPS\". exact I. Qed.\nEval vm_compute in (count_if case_skip cases).\n"
              % (table, PRELUDE, ";\n".join(lines[s:s + per])) for s in range(0, len(lines), per)]
    mism, skips = [], 0
    for k, (rc, out) in enumerate(core.run_sharded("c02rule", ["Parse"], shards)):
        bad = core.parse_nat_list(out, "MISMATCH") if rc == 0 else None
        if bad is None:
            res.broken.append(dict(kind="correspondence", name="rule-exact (coqc failed)", detail=out[-1500:]))
            continue
        skips += core.parse_nat(out, "SKIPS") or 0
        mism.extend(idx[k * per + j] for j in bad)
    # the isinstance half, stated on the implementation itself
    disagree = [i for i, o in enumerate(outs) if o[0] == "pair" and o[2][0] == "ok"
                and o[2][1] != (o[1][0] == "ok")]
    byname = {}
    for c in cases:
        for k in c["cons"]:
            byname[k] = byname.get(k, 0) + 1
    distinct = len({repr((c["origin"], sorted(c["cons"].items()), c["value"])) for c in cases})
    res.add_suite("rule-exact", len(cases), max(0, distinct - skips - cfg - unenc),
                  [dict(case=repr(cases[0]), impl=repr(outs[0]))],
                  "constrained builtin types with 1-3 random constraints x well-typed values centred on the declared "
                  "bounds (bound, +-1, +-1ulp, +-0.01); T(value) and isinstance(value, T) compared with the model; "
                  "distinct by (origin, constraints, value) minus Unmodelled/illegal declarations",
                  dict(constraint_histogram=byname, illegal_declarations=cfg, unmodelled_skipped=skips,
                       unencodable=unenc, mismatches=len(mism), isinstance_disagreements=len(disagree)))
    if mism:
        res.broken.append(dict(kind="correspondence", name="rule-exact",
                               detail="model/implementation differ on %d cases; first %r -> %r"
                                      % (len(mism), cases[mism[0]], outs[mism[0]])))
    res._cands = [cases[i] for i in mism[:50]] + [cases[i] for i in disagree[:20]]
    for i in disagree[:3]:
        res.violations.append(dict(case=repr(cases[i]), observed=repr(outs[i]),
                                   what="isinstance(value, T) disagrees with T(value)"))
    return cases, outs


def check_documented(case, out):
    """None if fine, else description"""
    if out[0] != "pair":
        return None
    d = documented(case)
    if d is None:
        return None
    r = out[1]
    if d and r[0] != "ok":
        return "a value satisfying every declared constraint is rejected (%r)" % (r,)
    if not d and r[0] == "ok":
        return "a value violating a declared constraint is accepted (-> %r)" % (r[1],)
    if d and r[0] == "ok":
        try:
            v = case["value"]
            if not (r[1] == v) and not (r[1] != r[1] and v != v):
                return "accepted value altered: %r -> %r" % (v, r[1])
        except Exception:
            pass
    return None


def search(res):
    found = []
    rng = random.Random(res.seed + 4242)
    cands = list(getattr(res, "_cands", [])) + [gen_case(rng) for _ in range(20000)]
    for c in cands:
        o = run_impl(c)
        msg = check_documented(c, o)
        if msg:
            found.append(dict(case=repr(c), observed=repr(o), what=msg,
                              case_data=dict(origin=c["origin"], cons=repr(c["cons"]), value=repr(c["value"]))))
            if len(found) >= 2:
                break
    return found


def main(tier, seed):
    res = core.Result(PID, tier, seed)
    ok = core.prove(res, PID)
    genexec.run_suite(res, tier, seed, only=set(genexec.STRICT))
    if core.build(["Model/Parse.vo"])["ok"]:
        rule_suite(res, tier, seed)
    return core.finish(res, "make -C coq Props/C02.vo && coqc (Print Assumptions audit)", "see suites", search=search,
                       level_note="validators are translated from the source on every run (tools/py2coq.py) and the C02 "
                                  "theorems are re-checked against that text; Rule.parse / __instancecheck__ are the "
                                  "hand model Model/Parse.v tied by the rule-exact suite; the documented sense of a "
                                  "constraint is Python's own operator semantics (Base/PyPrim.v, trusted)")


def replay(path):
    import json
    d = json.loads(open(path).read())
    if "case" not in d:
        print(json.dumps(d, indent=1)[:4000])
        r = core.build(["Props/%s.vo" % PID])
        print("rebuild:", "ok" if r["ok"] else r["failed"])
        return 0 if r["ok"] else 1
    c = eval(d["case"], {"Decimal": Decimal, "inf": float("inf"), "nan": float("nan")})
    o = run_impl(c)
    print("case:", c, "\nimplementation:", o, "\ndocumented sense:", documented(c))
    msg = check_documented(c, o)
    print("VIOLATED: " + msg if msg else "property holds on this case")
    return 1 if msg else 0
