"""C15 — types built from a JSON Schema never crash nor emit what the schema forbids."""
import random, json, warnings, keyword
from . import core, decl, dyn, findings
from .c13 import validate_batch

PID = "C15"
KEYS = ["a", "b", "my-key", "class", "items", "update", "x y", "x_y", "1st", "_p", "keys", "__", "get", "from", "A", "a!", "pop", "copy"]


def rand_schema(rng, depth=0):
    kinds = ["integer", "number", "string", "boolean", "null", "array", "object", "enum", "const", "anyOf", "oneOf", "allOf", "notype"]
    k = rng.choice(kinds if depth < 2 else ["integer", "number", "string", "boolean", "enum"])
    if k == "integer":
        s = {"type": "integer"}
        if rng.random() < 0.5: s["minimum"] = rng.randint(-5, 5)
        if rng.random() < 0.4: s["maximum"] = rng.randint(6, 20)
        if rng.random() < 0.2: s["exclusiveMinimum"] = rng.randint(-5, 0)
        if rng.random() < 0.15: s["exclusiveMaximum"] = rng.randint(15, 30)
        if rng.random() < 0.2: s["multipleOf"] = rng.choice([2, 3, 5])
        if rng.random() < 0.12: s["format"] = rng.choice(["int64", "int32", "unknown-format"])
        if rng.random() < 0.15:         # both bounds of one side, equal or one apart
            side = rng.choice(["imum", "imum", "both"])
            b = rng.randint(-3, 12)
            if side != "both" and rng.random() < 0.5:
                s["minimum"], s["exclusiveMinimum"] = b, b + rng.choice([0, 0, -1, 1])
                s.pop("maximum", None); s.pop("exclusiveMaximum", None)
            else:
                s["maximum"], s["exclusiveMaximum"] = b + 8, b + 8 + rng.choice([0, 0, -1, 1])
                if side == "both":
                    s["minimum"], s["exclusiveMinimum"] = b, b + rng.choice([0, 0, -1, 1])
        return s
    if k == "number":
        s = {"type": "number"}
        if rng.random() < 0.5: s["exclusiveMaximum"] = rng.choice([10, 100.5])
        if rng.random() < 0.4: s["minimum"] = rng.choice([0, -1.5])
        if rng.random() < 0.12: s["format"] = rng.choice(["double", "float", "unknown-format"])
        return s
    if k == "string":
        s = {"type": "string"}
        if rng.random() < 0.4: s["minLength"] = rng.randint(0, 2)
        if rng.random() < 0.4: s["maxLength"] = rng.randint(3, 6)
        if rng.random() < 0.3: s["pattern"] = rng.choice(["^[a-z]+$", "^\\d+$", "^a"])
        if rng.random() < 0.15: s["format"] = rng.choice(["date", "date-time", "uuid", "time", "duration"])
        elif rng.random() < 0.15: s["format"] = rng.choice(["email", "hostname", "uri", "regex", "flag"])     # no dedicated type: the 'type' keyword decides
        return s
    if k == "boolean": return {"type": "boolean"}
    if k == "null": return {"type": "null"}
    if k == "enum":
        return {"enum": rng.choice([[1, 2, 3], ["a", "b"], [1, "a", None], [True], [0, 1], [0, 5, 10], [0.0, 2.5], ["", "a"], [False], [None]])} \
            if rng.random() < 0.6 else {"type": "string", "enum": ["x", "yy"]}
    if k == "const": return {"const": rng.choice([1, "c", None, True, 2.5, 0, "", False, 0.0])}
    if k == "array":
        s = {"type": "array"}
        r = rng.random()
        if r < 0.5: s["items"] = rand_schema(rng, depth + 1)
        elif r < 0.8:
            s["prefixItems"] = [rand_schema(rng, depth + 1) for _ in range(rng.randint(1, 3))]
            rr = rng.random()
            if rr < 0.3: s["items"] = False
            elif rr < 0.6: s["items"] = rand_schema(rng, depth + 1)
        if rng.random() < 0.3: s["minItems"] = rng.randint(0, 2)
        if rng.random() < 0.3: s["maxItems"] = rng.randint(2, 4)
        if rng.random() < 0.2: s["uniqueItems"] = True
        return s
    if k == "object":
        s = {"type": "object"}
        if rng.random() < 0.8:
            names = rng.sample(KEYS, rng.randint(1, 4))
            s["properties"] = {n: rand_schema(rng, depth + 1) for n in names}
            if rng.random() < 0.6: s["required"] = rng.sample(names, rng.randint(0, len(names)))
            if rng.random() < 0.5: s["additionalProperties"] = rng.choice([True, False, {"type": "integer"}])
            if rng.random() < 0.2 and len(names) > 1: s["dependentRequired"] = {names[0]: [names[1]]}
        if rng.random() < 0.2: s["minProperties"] = rng.randint(0, 2)
        if rng.random() < 0.2: s["maxProperties"] = rng.randint(2, 5)
        return s
    if k in ("anyOf", "oneOf", "allOf"):
        subs = [rand_schema(rng, depth + 1) for _ in range(rng.randint(1, 3))]
        if k == "allOf" and rng.random() < 0.5:
            subs = [{"type": "integer", "minimum": 0}, {"type": "integer", "maximum": 10}]
        return {k: subs}
    s = rand_schema(rng, depth + 1)
    s.pop("type", None)
    return s


def inst_for(rng, s, depth=0):
    """an instance aimed at the schema: mostly of the right shape, numbers / lengths / counts at and next to the stated bounds"""
    if not isinstance(s, dict) or depth > 4:
        return rand_inst(rng, 3)
    for k in ("anyOf", "oneOf", "allOf"):
        if k in s and s[k]:
            return inst_for(rng, rng.choice(s[k]), depth + 1)
    if "const" in s and rng.random() < 0.7:
        return s["const"]
    if "enum" in s and rng.random() < 0.7:
        return rng.choice(s["enum"])
    t = s.get("type")
    nums = [s[k] for k in ("minimum", "maximum", "exclusiveMinimum", "exclusiveMaximum") if isinstance(s.get(k), (int, float)) and not isinstance(s.get(k), bool)]
    if t in ("integer", "number") or (t is None and nums):
        if nums and rng.random() < 0.85:
            b = rng.choice(nums)
            v = b + rng.choice([0, 0, 1, -1])
            if "multipleOf" in s and rng.random() < 0.5 and isinstance(v, int):
                v -= v % s["multipleOf"]
            return v
        return rng.choice([0, 1, 6, -3, 10, 2.5 if t == "number" else 7])
    if t == "string" or (t is None and any(k in s for k in ("minLength", "maxLength", "pattern"))):
        ln = rng.choice([s.get("minLength", 1), s.get("maxLength", 3), s.get("minLength", 1) - 1, s.get("maxLength", 3) + 1])
        ch = "7" if "d" in s.get("pattern", "") else "a"
        if "format" in s and rng.random() < 0.7:
            return {"date": "2020-01-02", "date-time": "2020-01-02T03:04:05", "uuid": "12345678-1234-5678-1234-567812345678",
                    "time": "03:04:05", "duration": "P1DT2H"}.get(s["format"], "x")
        return ch * max(0, ln)
    if t == "boolean":
        return rng.choice([True, False])
    if t == "null":
        return None
    if t == "array" or (t is None and any(k in s for k in ("items", "prefixItems", "minItems", "maxItems"))):
        pre = s.get("prefixItems", [])
        n = rng.choice([s.get("minItems", 1), s.get("maxItems", 2), len(pre), len(pre) + 1, s.get("maxItems", 2) + 1, max(0, s.get("minItems", 1) - 1)])
        out = []
        for i in range(n):
            sub = pre[i] if i < len(pre) else s.get("items", {})
            out.append(inst_for(rng, sub, depth + 1) if isinstance(sub, dict) else rand_inst(rng, 3))
        if s.get("uniqueItems") and out and rng.random() < 0.3:
            out.append(out[0])
        return out
    if t == "object" or (t is None and any(k in s for k in ("properties", "required", "minProperties", "maxProperties"))):
        props = s.get("properties", {})
        out = {}
        for k, sub in props.items():
            if k in s.get("required", []) and rng.random() < 0.9 or rng.random() < 0.6:
                out[k] = inst_for(rng, sub, depth + 1)
        if rng.random() < 0.3:
            ap = s.get("additionalProperties")
            out["zz"] = inst_for(rng, ap, depth + 1) if isinstance(ap, dict) else rand_inst(rng, 3)
        return out
    return rand_inst(rng, 2)


def rand_inst(rng, depth=0):
    r = rng.random()
    if r < 0.2: return rng.choice([0, 1, 5, -3, 10, 15, 100, True, False, 0.0, 1.0])
    if r < 0.3: return rng.choice([1.5, 0.0, 99.9])
    if r < 0.5: return rng.choice(["", "a", "ab", "abc", "123", "2020-01-02", "x", "yy", "c"])
    if r < 0.6: return rng.choice([True, False, None])
    if r < 0.8 and depth < 3: return [rand_inst(rng, depth + 1) for _ in range(rng.randint(0, 3))]
    if depth < 3: return {rng.choice(KEYS + ["zz"]): rand_inst(rng, depth + 1) for _ in range(rng.randint(0, 4))}
    return 1


def has_kw(s, kw):
    if isinstance(s, dict):
        return kw in s or any(has_kw(v, kw) for v in s.values())
    if isinstance(s, list):
        return any(has_kw(v, kw) for v in s)
    return False


def _kind(x):
    return "bool" if isinstance(x, bool) else "num" if isinstance(x, (int, float)) else "null" if x is None else type(x).__name__


def mixes_bool_int(s):
    """the listed finding: an enum whose members are of several kinds (so no single conversion type is inferred from it) with
    a number or a boolean among them, or a numeric / boolean const: there Python's True == 1 lets the other kind through.
    An enum of numbers only is converted with its members' type and is not covered"""
    if isinstance(s, dict):
        for k in ("enum",):
            if k in s and len({_kind(x) for x in s[k]}) > 1 and any(_kind(x) in ("bool", "num") for x in s[k]):
                return True
        if "const" in s and isinstance(s["const"], (int, float)):
            return True
        return any(mixes_bool_int(v) for v in s.values())
    if isinstance(s, list):
        return any(mixes_bool_int(v) for v in s)
    return False


def _msg(c, *needles):
    return any(n in e for e in c.get("errs", []) for n in needles)


# a listed finding covers a failure only if the schema has the feature AND the validator's complaint is the one the finding describes
findings.MATCHERS["schema-has-oneOf"] = lambda c: has_kw(c["schema"], "oneOf") and _msg(c, "is valid under each of", "is not valid under any of the given schemas")
findings.MATCHERS["schema-bool-int-enum"] = lambda c: mixes_bool_int(c["schema"]) and isinstance(c.get("value"), bool) and _msg(c, "is not one of", "was expected", "is not valid under any")
findings.MATCHERS["schema-has-allOf"] = lambda c: has_kw(c["schema"], "allOf") and _msg(c, "is not of type", "is not one of", "was expected", "is not valid under any")
def allof_objects(s):
    if isinstance(s, dict):
        if isinstance(s.get("allOf"), list) and sum(isinstance(x, dict) and (x.get("type") == "object" or "properties" in x) for x in s["allOf"]) >= 1 and len(s["allOf"]) >= 2:
            return True
        return any(allof_objects(v) for v in s.values())
    if isinstance(s, list):
        return any(allof_objects(v) for v in s)
    return False


findings.MATCHERS["schema-allOf-objects"] = lambda c: allof_objects(c["schema"]) and _msg(c, "is a required property", "enough properties", "is not valid under any")
def empty_range(s):
    """some subschema's numeric bounds leave no number at all"""
    if isinstance(s, dict):
        los = [(s[k], k == "exclusiveMinimum") for k in ("minimum", "exclusiveMinimum") if isinstance(s.get(k), (int, float)) and not isinstance(s.get(k), bool)]
        his = [(s[k], k == "exclusiveMaximum") for k in ("maximum", "exclusiveMaximum") if isinstance(s.get(k), (int, float)) and not isinstance(s.get(k), bool)]
        for lo, lx in los:
            for hi, hx in his:
                if lo > hi or (lo == hi and (lx or hx)):
                    return True
        return any(empty_range(v) for v in s.values())
    if isinstance(s, list):
        return any(empty_range(v) for v in s)
    return False


def typed_rest_in_object(s, v):
    """an object property that is an array with prefixItems and a typed `items`, holding more items than the prefix, inside an
    object whose additionalProperties is not false (the listed finding: the class's addition policy applies to the extra items
    instead of the `items` schema)"""
    if isinstance(s, dict):
        props = s.get("properties")
        if isinstance(props, dict) and isinstance(v, dict) and s.get("additionalProperties") not in (False, None):
            for k, ps in props.items():
                if isinstance(ps, dict) and ps.get("prefixItems") and isinstance(ps.get("items"), dict) and \
                        isinstance(v.get(k), list) and len(v[k]) > len(ps["prefixItems"]):
                    return True
        for k, sub in s.items():
            if k == "properties" and isinstance(sub, dict) and isinstance(v, dict):
                if any(typed_rest_in_object(ps, v.get(pk)) for pk, ps in sub.items()):
                    return True
            elif k in ("items",) and isinstance(v, list):
                if any(typed_rest_in_object(sub, x) for x in v):
                    return True
            elif k in ("anyOf", "oneOf", "allOf") and isinstance(sub, list):
                if any(typed_rest_in_object(x, v) for x in sub):
                    return True
    return False


findings.MATCHERS["schema-typed-rest-in-object"] = lambda c: not c.get("build") and typed_rest_in_object(c["schema"], c.get("value"))
findings.MATCHERS["schema-empty-range"] = lambda c: bool(c.get("build")) and empty_range(c["schema"]) and _msg(c, "must >")
findings.MATCHERS["schema-minProperties"] = lambda c: has_kw(c["schema"], "minProperties") and _msg(c, "enough properties", "non-empty", "is not valid under any")


def closed_tuple_schema(rng):
    """a closed tuple (prefixItems + items: false, minItems absent / below / at the prefix length) in the positions where the
    type is built with its own constraints: under an array's items, in an anyOf branch, as a property, at the top"""
    leaf = lambda: rng.choice([{"type": "integer"}, {"type": "string"}, {"type": "boolean"}, {"type": "number"}, {"type": "integer", "minimum": 0}])
    k = rng.randint(1, 3)
    tup = {"type": "array", "prefixItems": [leaf() for _ in range(k)], "items": False}
    m = rng.choice([None, 0, k - 1, k, k])
    if m is not None:
        tup["minItems"] = m
    if rng.random() < 0.4:
        # the schema's own upper bound, below / at / above the prefix length (kept satisfiable)
        mx = rng.choice([max(1, k - 1), k, k + 1])
        if m is None or m <= mx:
            tup["maxItems"] = mx
    wrap = rng.choice([lambda: {"type": "array", "items": tup}, lambda: {"anyOf": [tup, {"type": "null"}]}, lambda: tup,
                       lambda: {"type": "array", "items": {"anyOf": [tup, {"type": "string"}]}},
                       lambda: {"type": "array", "items": {"anyOf": [tup, {"type": "integer"}]}}])()
    if rng.random() < 0.25:
        return wrap
    outer = {"type": "object", "properties": {"rows": wrap}}
    r = rng.random()
    if r < 0.45:
        outer["additionalProperties"] = True
    elif r < 0.7:
        outer["additionalProperties"] = False
    if rng.random() < 0.5:
        outer["required"] = ["rows"]
    return outer


def build_and_parse(i_seed):
    """one random schema: build the type (must not fail), parse random JSON instances under strict options, JSON-encode the outputs"""
    from utype import Options
    from utype.specs.json_schema.parser import JsonSchemaParser
    from utype.utils.encode import JSONEncoder
    from utype.utils.transform import type_transform
    warnings.simplefilter("ignore")
    rng = random.Random(i_seed)
    sch = closed_tuple_schema(rng) if i_seed % 7 == 3 else rand_schema(rng)
    try:
        T = JsonSchemaParser(sch, name="T%d" % (i_seed % 100000))()
    except Exception as e:
        return dict(schema=sch, build_error="%s: %s" % (type(e).__name__, str(e)[:200]))
    strict = Options(no_explicit_cast=True, no_data_loss=True)
    insts, crashes = [], []
    for i in range(14):
        v = rand_inst(rng) if i < 6 else inst_for(rng, sch)
        try:
            r = type_transform(v, T, strict)
        except (TypeError, ValueError):
            continue
        except Exception as e:
            crashes.append("%s on %r: %s" % (type(e).__name__, v, str(e)[:120]))
            continue
        try:
            insts.append(json.loads(json.dumps(r, cls=JSONEncoder)))
        except Exception as e:
            crashes.append("output of %r cannot be encoded / used: %s: %s" % (v, type(e).__name__, str(e)[:120]))
    return dict(schema=sch, instances=insts, crashes=crashes)


# ---- the helpers against Model/SchemaParse.v ----
def helpers_suite(res, rng, n):
    from utype.specs.json_schema.parser import JsonSchemaParser
    from utype.utils.functional import valid_attr
    from utype import Schema
    s = core.coq_str
    lines = []
    reserved = [x for x in dir(Schema) if all(32 <= ord(c) < 127 for c in x)]
    for i in range(n):
        keys = rng.sample(KEYS, rng.randint(1, 6))
        sch = {"type": "object", "properties": {k: {} for k in keys}}
        try:
            T = JsonSchemaParser(sch, name="H%d" % i)()
            got = [f.attname for f in T.__parser__.fields.values()]
            names = [f.name for f in T.__parser__.fields.values()]
        except Exception as e:
            res.violations.append(dict(case=repr(dict(kind="helpers", keys=keys)), observed="building failed: %r" % e,
                                       what="a class cannot be built for property names %r: %r" % (keys, e)))
            continue
        if names != keys:
            res.violations.append(dict(case=repr(dict(kind="helpers", keys=keys)), observed=repr(names), what="property names %r became fields named %r" % (keys, names)))
        valid = [k for k in keys if valid_attr(k)]
        lines.append("AttC %s %s %s" % (decl.coq_list([s(k) for k in keys]), decl.coq_list([s(k) for k in valid]), decl.coq_list([s(a) for a in got])))
    for i in range(n):
        b = {}
        for k in ("exclusiveMinimum", "minimum", "exclusiveMaximum", "maximum"):
            if rng.random() < 0.6:
                b[k] = rng.randint(-9, 9)
        c = JsonSchemaParser.get_constraints(dict(b))
        o = lambda d, k: "None" if k not in d else "(Some (%d)%%Z)" % d[k]
        lines.append("BndC {| b_gt := %s; b_ge := %s; b_lt := %s; b_le := %s |} {| b_gt := %s; b_ge := %s; b_lt := %s; b_le := %s |}" % (
            o(b, "exclusiveMinimum"), o(b, "minimum"), o(b, "exclusiveMaximum"), o(b, "maximum"), o(c, "gt"), o(c, "ge"), o(c, "lt"), o(c, "le")))
    kw = decl.coq_list([s(k) for k in keyword.kwlist])
    rsv = decl.coq_list([s(k) for k in reserved])
    body = ("From Coq Require Import Ascii.\nOpen Scope string_scope.\nDefinition KW := %s.\nDefinition RSV := %s.\n"
            "Fixpoint digits (fuel n : nat) (acc : string) : string := match fuel with O => acc | S f => "
            "let acc' := String (ascii_of_nat (48 + Nat.modulo n 10)) acc in if Nat.eqb (Nat.div n 10) 0 then acc' else digits f (Nat.div n 10) acc' end.\n"
            "Definition sfx (i : nat) : string := \"_\" ++ digits 6 i \"\".\n"
            "Definition oz (a b : option Z) : bool := match a, b with Some x, Some y => Z.eqb x y | None, None => true | _, _ => false end.\n"
            "Inductive hcase := AttC (keys valid got : list string) | BndC (b c : bounds).\n"
            "Definition sl_eqb (a b : list string) : bool := Nat.eqb (List.length a) (List.length b) && forallb (fun p => String.eqb (fst p) (snd p)) (List.combine a b).\n"
            "Definition hok (c : hcase) : bool := match c with\n"
            "  | AttC keys valid got => match attnames sfx (fun k => str_mem k valid) KW RSV keys keys [] 50 with Some out => sl_eqb out got | None => false end\n"
            "  | BndC b c => let n := norm_bounds b in oz (b_gt n) (b_gt c) && oz (b_ge n) (b_ge c) && oz (b_lt n) (b_lt c) && oz (b_le n) (b_le c) end.\n"
            "Definition cases : list hcase := [\n%s\n].\nGoal True. idtac \"MISMATCH\". exact I. Qed.\nEval vm_compute in (bad_idx hok cases).\n"
            % (kw, rsv, ";\n".join(lines)))
    rc, out = core.coq_eval("c15helpers_%d" % __import__("os").getpid(), ["Validators", "SchemaParse"], body)
    bad = core.parse_nat_list(out, "MISMATCH") if rc == 0 else None
    if bad is None:
        res.broken.append(dict(kind="correspondence", name="schema-helpers (coqc failed)", detail=out[-1500:]))
        bad = []
    res.add_suite("schema-helpers", len(lines), len(set(lines)), [lines[0][:300] if lines else ""],
                  "attribute names given to random property-name lists (non-identifiers, keywords, mapping-method names, underscore "
                  "prefixes, names colliding after sanitising) by JsonSchemaParser.parse_object and the bounds returned by get_constraints "
                  "for random minimum / exclusiveMinimum / maximum / exclusiveMaximum sets, compared with attnames / norm_bounds of "
                  "Model/SchemaParse.v", dict(mismatches=len(bad)))
    if bad:
        res.broken.append(dict(kind="correspondence", name="schema-helpers", detail="model and implementation differ on %d cases; first: %s" % (len(bad), lines[bad[0]][:500])))


def main(tier, seed):
    warnings.simplefilter("ignore")
    res = core.Result(PID, tier, seed)
    core.prove(res, PID)
    known_runner = {
        "C15-oneof-exact-class": lambda: True, "C15-bool-int-enum": lambda: True, "C15-min-properties-dropped-keys": lambda: True}
    rng = random.Random(seed * 163 + 15)
    if core.build(["Model/SchemaParse.vo", "Model/Validators.vo"])["ok"]:
        helpers_suite(res, rng, 150 if tier == "quick" else 2000)
    n = 900 if tier == "quick" else 15000
    outs = core.pool_map(build_and_parse, [seed * 1000081 + i for i in range(n)])
    outs = [o for o in outs if isinstance(o, dict)]
    jobs = [dict(schema=o["schema"], instances=o.get("instances", [])) for o in outs]
    try:
        results = validate_batch(jobs)
    except Exception as e:
        res.broken.append(dict(kind="correspondence", name="jsonschema validator", detail=str(e)[:800]))
        results = [dict(schema_ok=False)] * len(jobs)
    bad, known = [], {}
    n_out = 0
    for o, r in zip(outs, results):
        if "build_error" in o:
            fid = findings.matches_any(PID, dict(schema=o["schema"], errs=[o["build_error"]], value=None, build=True))
            if fid:
                known[fid] = known.get(fid, 0) + 1
            else:
                bad.append("building a type failed (%s) for %s" % (o["build_error"], json.dumps(o["schema"])[:400]))
            continue
        for c in o.get("crashes", []):
            bad.append("the built type crashed: %s; schema %s" % (c, json.dumps(o["schema"])[:400]))
        if not r.get("schema_ok"):
            continue
        for x, errs in zip(o["instances"], r.get("inst", [])):
            n_out += 1
            if errs:
                fid = findings.matches_any(PID, dict(schema=o["schema"], errs=errs, value=x))
                if fid:
                    known[fid] = known.get(fid, 0) + 1
                else:
                    bad.append("the type built from %s returned %s under strict options, which the schema forbids (%s)" % (
                        json.dumps(o["schema"])[:500], json.dumps(x)[:200], errs))
    for f in findings.load(PID):
        if known.get(f["id"]):
            res.known.append((f["id"], f["what"]))
        else:
            res.notes.append("known finding %s did not show in this run's sample" % f["id"])
    res.add_suite("schema-oracle", len(outs), len({json.dumps(o["schema"], sort_keys=True) for o in outs}),
                  [dict(schema=json.dumps(outs[0]["schema"])[:300])] if outs else [""],
                  "random schemas of the supported fragment (type, format, numeric / length / pattern / enum / const, items / prefixItems, "
                  "properties / required / additionalProperties / dependentRequired, min/maxProperties, anyOf / oneOf / allOf, with and "
                  "without an explicit type, property names that are not identifiers or collide with mapping methods): building must "
                  "succeed; 12 random JSON instances each are parsed under no_explicit_cast + no_data_loss and every returned value, "
                  "JSON-encoded, must validate against the source schema (jsonschema reference implementation)",
                  dict(outputs_validated=n_out, failures_not_listed=len(bad), failures_matching_known_findings=known))
    for o in bad[:3]:
        res.violations.append(dict(case=repr(dict(kind="oracle")), observed=o, what=o))
    return core.finish(res, "make -C coq Props/C15.vo && coqc (Print Assumptions audit)", "see suites", search=None,
                       level_note="partial: the theorems are about the bound normalisation and the attribute naming of "
                                  "Model/SchemaParse.v (tied by the schema-helpers suite); that building succeeds and that returned values "
                                  "validate against the source schema is decided by the schema-oracle suite on the implementation; three "
                                  "open known findings (oneOf vs the exact-class shortcut of ^, bool/int equality in enum / const, "
                                  "minProperties counted before unknown keys are dropped); $ref / $defs are not covered")


def replay(path):
    d = json.loads(open(path).read())
    print(json.dumps(d, indent=1)[:3000])
    if "case" not in d:
        r = core.build(["Props/%s.vo" % PID])
        return 0 if r["ok"] else 1
    return 1
