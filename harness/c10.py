"""C10 — collecting errors changes reporting only, never the verdict or the value."""
import random, warnings
from decimal import Decimal
from . import core, decl, gen, parsesuite, dc, dcsuite, dyn, findings, fieldgen
import re

PID = "C10"

GOOD = {"int": [1, "2", 3.0], "str": ["a", "bc"], "PositiveInt": [1, "5"], "List[int]": [[1, "2"], []],
        "Dict[str, int]": [{"a": 1}, {}], "Tuple[int, str]": [(1, "a"), ["2", "b"]], "Union[int, str]": [1, "a"],
        "Month": [1, 12], "bool": [True, "false"], "float": [1.5, "2"]}
# values that are certainly rejected (lenient conversion accepts almost anything for str / bool / unions)
BAD = {"int": ["x", "abc", "1.5x", "["], "PositiveInt": [0, -1, "x", None, "["], "List[int]": [[1, "x"], ["a"], "[", {"a": None}],
       "Dict[str, int]": [{"a": "x"}, None, 5, "["], "Tuple[int, str]": [("x", "a"), (1,), None, 5],
       "Month": [13, 0, "x", None], "float": ["x", "abc", "["]}
# (None and other values the origin class of a constrained / generic type cannot be made from: the conversion error ends the
#  parse of that field in both modes)


def make_class(rng):
    """a class with 2-5 typed fields, some optional"""
    name = dyn.fresh("Col")
    base = rng.choice(["Schema", "DataClass"])
    n = rng.randint(2, 5)
    fields = []
    lines = ["class %s(%s):" % (name, base)]
    for i in range(n):
        t = rng.choice(list(GOOD))
        opt = rng.random() < 0.3
        fields.append(("f%d" % i, t, opt))
        lines.append("    f%d: %s%s" % (i, t, " = Field(required=False)" if opt else ""))
    src = "\n".join(lines) + "\n"
    dyn.declare(src)
    return name, fields, src


def gen_cases(rng, n):
    classes = [make_class(rng) for _ in range(40)]
    cases = []
    for _ in range(n):
        name, fields, src = rng.choice(classes)
        data, failing = {}, []
        for fname, t, opt in fields:
            r = rng.random()
            if r < 0.25 and t in BAD:
                data[fname] = rng.choice(BAD[t]); failing.append(fname)
            elif r < 0.33 and not opt:
                failing.append(fname)              # a missing required field
            elif r < 0.33:
                pass
            else:
                data[fname] = rng.choice(GOOD[t])
        extra = []
        if rng.random() < 0.2:
            data["zz"] = 1
            extra = ["zz"]
        me = rng.choice([None, None, 1, 2, 3])
        add = rng.choice([None, None, False])
        cases.append(dict(cls=name, src=src, data=data, failing=failing, extra=extra, max_errors=me, addition=add))
    return cases


def run_both(case):
    """the same input once fail-fast, once collecting; returns verdicts, values and the reported items"""
    import utype
    from utype.utils import exceptions as exc
    warnings.simplefilter("ignore")
    cls = dyn.get(case["cls"])
    kw = {}
    if case["addition"] is not None:
        kw["addition"] = case["addition"]
    out = []
    for collect in (False, True):
        o = utype.Options(collect_errors=collect, **(dict(max_errors=case["max_errors"]) if collect and case["max_errors"] else {}), **kw)
        try:
            r = cls.__from__(case["data"], options=o)
            out.append(("ok", dict(r) if isinstance(r, dict) else {k: v for k, v in r.__dict__.items() if not k.startswith("__")}))
        except exc.CollectedParseError as e:
            out.append(("collected", [getattr(x, "item", None) for x in e.errors]))
        except exc.ParseError as e:
            out.append(("parse", getattr(e, "item", None)))
        except Exception as e:
            out.append(("other", type(e).__name__))
    return tuple(out)


def judge(case, out):
    ff, co = out
    if ff[0] == "other" or co[0] == "other":
        return "a non-ParseError escaped: %r" % (out,)
    if (ff[0] == "ok") != (co[0] == "ok"):
        return "verdict differs: fail-fast %r, collecting %r" % (ff, co)
    if ff[0] == "ok":
        if ff[1] != co[1]:
            return "value differs: fail-fast %r, collecting %r" % (ff[1], co[1])
        return None
    if co[0] != "collected":
        return "collecting mode did not raise one collected error: %r" % (co,)
    expected = list(case["failing"]) + (case["extra"] if case["addition"] is False else [])
    items = co[1]
    me = case["max_errors"]
    if me and len(items) > me:
        return "%d errors reported, max_errors=%d" % (len(items), me)
    if any(i not in expected for i in items):
        return "a valid item is reported: %r (failing: %r)" % (items, expected)
    if not me or len(expected) < me:
        if sorted(map(str, items)) != sorted(map(str, expected)):
            return "reported items %r differ from the failing items %r" % (items, expected)
    elif len(items) != me:
        return "reported %d items with %d failing and max_errors=%d" % (len(items), len(expected), me)
    return None


# ---- the same on declarations with aliases, modes, defaults, dependencies (fieldgen) ----
def declare_collect_pair(rng, small, feats=None):
    """the same class twice: collect_errors=False and =True in its Options"""
    for _ in range(30):
        name, src, fields, okw = fieldgen.small_class(rng, feats) if small else fieldgen.rand_class(rng)
        okw = {k: v for k, v in okw.items() if k not in ("collect_errors", "max_errors")}
        names = []
        try:
            for collect in (False, True):
                n2 = dyn.fresh("Cl")
                kw = dict(okw, collect_errors=collect)
                lines = [l for l in src.rstrip("\n").split("\n") if "__options__" not in l]
                lines[0] = re.sub(r"class \w+\(", "class %s(" % n2, lines[0], 1)
                lines.insert(1, "    __options__ = Options(%s)" % ", ".join("%s=%r" % kv for kv in kw.items()))
                dyn.declare("\n".join(lines) + "\n")
                names.append(n2)
        except Exception:
            continue
        return names, src, fields, okw
    raise RuntimeError("could not declare")


def run_cls(clsname, data):
    from utype.utils import exceptions as exc
    warnings.simplefilter("ignore")
    cls = dyn.get(clsname)
    try:
        r = cls.__from__(data)
        return ("ok", dict(r) if isinstance(r, dict) else {k: v for k, v in r.__dict__.items() if not k.startswith("__")})
    except exc.CollectedParseError as e:
        return ("collected", [getattr(x, "item", None) for x in e.errors])
    except exc.ParseError as e:
        return ("parse", getattr(e, "item", None))
    except Exception as e:
        return ("other", type(e).__name__)


def judge_fields(case):
    ff, co = run_cls(case["names"][0], case["data"]), run_cls(case["names"][1], case["data"])
    if ff[0] == "other" or co[0] == "other":
        return "a non-ParseError escaped: %r / %r" % (ff, co)
    if (ff[0] == "ok") != (co[0] == "ok"):
        return "verdict differs: fail-fast %r, collecting %r" % (ff, co)
    if ff[0] == "ok":
        return None if repr(ff[1]) == repr(co[1]) else "value differs: fail-fast %r, collecting %r" % (ff[1], co[1])
    if co[0] != "collected":
        return "collecting mode did not raise one collected error: %r" % (co,)
    items = co[1]
    if ff[1] is not None and ff[1] not in items:
        return "the item fail-fast stops at (%r) is not among the collected items %r" % (ff[1], items)
    # no valid item is reported: with every other reported item repaired, the input must still fail
    parser = dyn.get(case["names"][0]).__parser__
    by_name = {f.name: f for f in parser.fields.values()}
    meta = {m.get("alias", m["attname"]): m for m in case["fields"]}
    for x in items:
        if x is None:
            continue
        data = dict(case["data"])
        for y in items:
            if y is None or y == x:
                continue
            if y in by_name:
                for k in list(data):
                    f = parser.get_field(str(k))
                    if f is not None and f.name == y:
                        del data[k]
                m = meta.get(y)
                if m is not None:
                    data[m["attname"]] = fieldgen.GOODV[m["type"]][0]
            else:
                data.pop(y, None)
        r = run_cls(case["names"][0], data)
        if r[0] == "ok":
            return "a valid item is reported: %r among %r (with the other reported items repaired the input %r is accepted)" % (x, items, data)
    return None


def shapes_case(i_seed):
    """typed additions (Options(addition=T), **extra: T, *args: T), nested containers, and the other class options that change
    what is checked (ignore_constraints, invalid_* policies, no_data_loss): the same declaration with collect_errors off and on"""
    import utype
    from utype.utils import exceptions as exc
    warnings.simplefilter("ignore")
    rng = random.Random(i_seed)
    t = dyn.fresh("Cs")
    extra = {}
    if rng.random() < 0.35: extra["ignore_constraints"] = True
    if rng.random() < 0.2: extra["no_data_loss"] = True
    if rng.random() < 0.2: extra["invalid_items"] = rng.choice(["exclude", "preserve"])
    if rng.random() < 0.15: extra["max_errors"] = rng.choice([1, 2, 5])
    kind = rng.choice(["cls", "cls", "fn"])
    BAD = rng.choice(["oops", None, [1], "1.x"])
    good_i = lambda: rng.choice([1, "2", 3.0])
    item = lambda: BAD if rng.random() < 0.3 else good_i()
    if kind == "cls":
        addt = rng.choice([None, "int", "int", "float", "List[int]"])
        opt = dict(extra)
        if addt:
            opt["addition"] = "@" + addt
        fields = rng.sample([("qty", "List[int]"), ("pair", "Tuple[int, int]"), ("prices", "Dict[str, float]"),
                             ("ref", "Union[List[int], Dict[str, int], None]"), ("n", "PositiveInt"), ("name", "str = Field(max_length=3)")], rng.randint(1, 4))
        names = []
        for collect in (False, True):
            kw = dict(opt, collect_errors=collect)
            osrc = ", ".join("%s=%s" % (k, v[1:] if isinstance(v, str) and v.startswith("@") else repr(v)) for k, v in kw.items())
            nm = "%s%d" % (t, int(collect))
            src = "class %s(Schema):\n    __options__ = Options(%s)\n    id: int\n" % (nm, osrc)
            for f, ty in fields:
                src += "    %s: %s%s\n" % (f, ty, "" if "=" in ty else " = None")
            try:
                dyn.declare(src)
            except Exception:
                return None
            names.append(nm)
        data = {"id": rng.choice([1, "1", "bad"]) if rng.random() < 0.9 else None}
        for f, ty in fields:
            if rng.random() < 0.8:
                data[f] = {"qty": [item() for _ in range(rng.randint(0, 3))], "pair": (item(), item()),
                           "prices": {"a": item(), "b": item()}, "ref": rng.choice([[item(), item()], {"k": item()}, None]),
                           "n": rng.choice([1, 0, "3", BAD]), "name": rng.choice(["ab", "toolong", 5])}[f]
        if rng.random() < 0.6:
            data["x1"] = item() if addt != "List[int]" else [item(), item()]
        if rng.random() < 0.3:
            data["x2"] = item()
        call = lambda nm: dyn.get(nm)(**data)
        desc = "%s\ninput %r" % (src, data)
    else:
        names = []
        for collect in (False, True):
            kw = dict(extra, collect_errors=collect)
            nm = "%sf%d" % (t, int(collect))
            src = ("@utype.parse(options=Options(%s))\ndef %s(a: int, qty: List[int] = None, *rest: int, **more: %s):\n    return (a, qty, rest, more)\n"
                   % (", ".join("%s=%r" % kv for kv in kw.items()), nm, rng.choice(["int"]) ))
            try:
                dyn.declare(src)
            except Exception:
                return None
            names.append(nm)
        args = [rng.choice([1, "1", "bad"])]
        if rng.random() < 0.7:
            args.append([item() for _ in range(rng.randint(0, 3))])
            args += [item() for _ in range(rng.randint(0, 3))]
        kwargs = {("k%d" % j): item() for j in range(rng.randint(0, 2))}
        call = lambda nm: dyn.get(nm)(*args, **kwargs)
        desc = "%s\ncall args %r kwargs %r" % (src, args, kwargs)
        data = None
        # every failing item on its own (plain conversions; only when no policy / strictness changes what fails)
        if not any(k in extra for k in ("invalid_items", "max_errors", "no_data_loss")):
            from utype.utils.transform import type_transform as _tt
            from utype import Rule as _R
            from typing import List as _L

            def fails(v, T):
                try:
                    _tt(v, T)
                    return False
                except Exception:
                    return True
            n_fail = int(fails(args[0], int))
            if len(args) > 1:
                n_fail += int(args[1] is not None and fails(args[1], _R.parse_annotation(_L[int])))
                n_fail += sum(fails(v, int) for v in args[2:])
            n_fail += sum(fails(v, int) for v in kwargs.values())
            expect_items = n_fail

    def run(nm):
        try:
            r = call(nm)
            return ("ok", repr(r).replace(nm, "T"))
        except exc.CollectedParseError as e:
            return ("fail", sorted(str(getattr(x, "item", None)) for x in e.errors))
        except exc.ParseError as e:
            return ("fail", [str(getattr(e, "item", None))])
        except Exception as e:
            return ("other", type(e).__name__)
    ff, co = run(names[0]), run(names[1])
    if ff[0] == "other" or co[0] == "other":
        return None if ff == co else "a non-ParseError escaped in one mode only: fail-fast %r, collecting %r\n%s" % (ff, co, desc)
    if ff[0] != co[0]:
        return "verdict differs: fail-fast %r, collecting %r\n%s" % (ff, co, desc)
    if ff[0] == "ok" and ff[1] != co[1]:
        return "value differs: fail-fast %r, collecting %r\n%s" % (ff[1], co[1], desc)
    if ff[0] == "fail" and ff[1][0] not in co[1] and not extra.get("max_errors"):
        return "the item fail-fast stops at (%r) is not among the collected %r\n%s" % (ff[1][0], co[1], desc)
    if kind == "fn" and co[0] == "fail" and "expect_items" in locals() and len(set(co[1])) < locals()["expect_items"]:
        return "%d items fail on their own but only %r are collected\n%s" % (locals()["expect_items"], co[1], desc)
    return ("ok", ff[0])


def shapes_suite(res, tier, seed):
    n = 3000 if tier == "quick" else 50000
    outs = core.pool_map(shapes_case, [seed * 1000117 + i for i in range(n)])
    bad = [o for o in outs if isinstance(o, str)]
    agg = {}
    for o in outs:
        if isinstance(o, tuple):
            agg[o[1]] = agg.get(o[1], 0) + 1
    res.add_suite("collect-shapes", n, n, ["seeded declarations: Schema with typed addition / nested container fields, parsed functions with *args: int and **more: int"],
                  "classes with Options(addition=<type>) and List / Tuple / Dict / Union fields, parsed functions with typed *args and "
                  "**kwargs, under ignore_constraints / no_data_loss / invalid_items policies / max_errors, each declared with "
                  "collect_errors off and on; inputs with 0-4 unconvertible spots (fields, elements, additions): same verdict, same "
                  "value, the item fail-fast stops at is among the collected ones", dict(failures=len(bad), outcomes=agg))
    for o in bad[:3]:
        res.violations.append(dict(case=repr(dict(kind="collect-shapes")), observed=o, what=o))


def fields_suite(res, rng, tier):
    ncls = 60 if tier == "quick" else 800
    cases = []
    for _ in range(ncls):
        names, src, fields, okw = declare_collect_pair(rng, small=False)
        for _ in range(8):
            cases.append(dict(names=names, src=src, okw=okw, fields=fields, data=fieldgen.rand_input(rng, fields)))
    pairs = fieldgen.feature_pairs()
    rng.shuffle(pairs)
    for feats in pairs * (1 if tier == "quick" else 6):
        try:
            names, src, fields, okw = declare_collect_pair(rng, small=True, feats=feats)
        except RuntimeError:
            continue
        for data in fieldgen.state_inputs(rng, fields, limit=24):
            cases.append(dict(names=names, src=src, okw=okw, fields=fields, data=data))
    outs = core.pool_map(judge_fields, cases)
    bad = [(c, o) for c, o in zip(cases, outs) if isinstance(o, str)]
    res.add_suite("collect-fields", len(cases), len({repr((c["src"], c["okw"], c["data"])) for c in cases}),
                  [dict(src=cases[0]["src"], data=repr(cases[0]["data"]))],
                  "declarations over the Field parameters and class Options (aliases, case-insensitive names, modes, defaults, "
                  "dependencies, on_error, addition policy), each declared with collect_errors False and True; judged: same verdict, "
                  "same value, the item fail-fast stops at is collected, and every collected item still fails once all the other "
                  "collected items are repaired (no valid item is reported)",
                  dict(failures=len(bad)))
    for c, o in bad[:3]:
        res.violations.append(dict(case=repr(dict(src=c["src"], okw=c["okw"], data=c["data"], fields=c["fields"], kind="fields")),
                                   observed=o, what=o))



# ---- the same on decorated functions: positional-only / keyword parameters, typed *args and **kwargs ----
FN_T = {"int": ([5, "5"], ["x!"]), "PositiveInt": ([5, "7"], [-5, "x!", 0]), "List[int]": ([[1, "2"], []], [["a"], "x!"]),
        "Optional[int]": ([None, 5], ["x!"])}


def functions_case(i_seed):
    """one signature, declared once fail-fast and once collecting (with an optional cap); one call whose arguments are each valid
    or invalid by construction: same verdict, same received values, and the collected error names exactly the invalid arguments
    (parameters by name, variadic ones as *args:<index> / **kw:<key>), each once, at most max_errors of them"""
    import utype
    from utype.utils import exceptions as exc
    warnings.simplefilter("ignore")
    rng = random.Random(i_seed)
    n_po = rng.randint(1, 3)
    has_d = rng.random() < 0.6
    vt = rng.choice([None, "int", "PositiveInt", "List[int]", "Optional[int]"])
    has_kw = rng.random() < 0.4
    me = rng.choice([None, None, 1, 2, 3])
    names = "abc"[:n_po]
    sig = ", ".join("%s: int" % c for c in names) + ", /"
    if has_d:
        sig += ", d: int = 0"
    if vt:
        sig += ", *args: %s" % vt
    elif True:
        sig += ", *"
    sig += ", e: int = 0"
    if has_kw:
        sig += ", **kw: int"
    tag = dyn.fresh("Cf")
    body = "    return dict(locals())\n"
    src = ("@utype.parse\ndef %s_ff(%s):\n%s@utype.parse(options=Options(collect_errors=True%s))\ndef %s_co(%s):\n%s"
           % (tag, sig, body, ", max_errors=%d" % me if me else "", tag, sig, body))
    try:
        dyn.declare(src)
    except Exception as e:
        return None
    ff, co = dyn.get(tag + "_ff"), dyn.get(tag + "_co")
    args, kwargs, failing = [], {}, []

    def pick(t, item):
        good, bad = FN_T[t]
        if rng.random() < 0.3:
            failing.append(item)
            return rng.choice(bad)
        return rng.choice(good)
    for c in names:
        args.append(pick("int", c))
    give_d = has_d and rng.random() < 0.7
    if give_d:
        args.append(pick("int", "d"))
    if vt and (give_d or not has_d):
        for _ in range(rng.randint(0, 3)):
            args.append(pick(vt, "*args:%d" % len(args)))
    if rng.random() < 0.6:
        kwargs["e"] = pick("int", "e")
    if has_kw and rng.random() < 0.6:
        k = rng.choice(["z", "y"])
        kwargs[k] = pick("int", "**kw:%s" % k)
    out = []
    for f in (ff, co):
        try:
            out.append(("ok", f(*args, **kwargs)))
        except exc.CollectedParseError as e:
            out.append(("collected", [getattr(x, "item", None) for x in e.errors]))
        except exc.ParseError as e:
            out.append(("parse", getattr(e, "item", None)))
        except Exception as e:
            out.append(("other", type(e).__name__, str(e)[:100]))
    r_ff, r_co = out
    where = "\n-- declaration --\n%s-- call --\nargs=%r kwargs=%r (invalid by construction: %r)" % (src, args, kwargs, failing)
    if r_ff[0] == "other" or r_co[0] == "other":
        return "a non-ParseError escaped: %r" % (out,) + where
    if (r_ff[0] == "ok") != (not failing):
        return "fail-fast verdict %r with invalid arguments %r" % (r_ff, failing) + where
    if (r_co[0] == "ok") != (r_ff[0] == "ok"):
        return "verdict differs: fail-fast %r, collecting %r" % (r_ff, r_co) + where
    if r_ff[0] == "ok":
        return None if r_ff[1] == r_co[1] else "values differ: fail-fast %r, collecting %r" % (r_ff[1], r_co[1]) + where
    if r_co[0] != "collected":
        return "collecting mode did not raise one collected error: %r" % (r_co,) + where
    items = r_co[1]
    if me and len(items) > me:
        return "%d errors reported with max_errors=%d: %r" % (len(items), me, items) + where
    if any(i not in failing for i in items):
        return "an item that is not an invalid argument is reported: %r (invalid: %r)" % (items, failing) + where
    if len(set(items)) != len(items):
        return "an item is reported twice: %r" % (items,) + where
    if (not me or len(failing) < me) and sorted(items) != sorted(failing):
        return "reported items %r differ from the invalid arguments %r" % (items, failing) + where
    if me and len(failing) >= me and len(items) != me:
        return "%d items reported with %d invalid arguments and max_errors=%d" % (len(items), len(failing), me) + where
    return ("checked", r_ff[0])


def functions_suite(res, tier, seed):
    n = 1500 if tier == "quick" else 30000
    outs = core.pool_map(functions_case, [seed * 5000011 + i for i in range(n)])
    bad = [o for o in outs if isinstance(o, str)]
    rejected = sum(1 for o in outs if o == ("checked", "parse"))
    res.add_suite("collect-functions", n, sum(1 for o in outs if isinstance(o, tuple)),
                  [dict(signature="def f(a: int, b: int, /, d: int = 0, *args: PositiveInt, e: int = 0, **kw: int)", call="f(1, 'x!', 3, -5, e='x!')",
                        expect="items b, *args:3, e")],
                  "decorated functions with 1-3 positional-only parameters, an optional defaulted one, typed *args (int / PositiveInt / "
                  "List[int] / Optional[int]), a keyword-only one and typed **kw; every argument valid or invalid by construction; "
                  "fail-fast vs collecting (cap None/1/2/3): verdict, received values, reported items == invalid arguments, once each",
                  dict(failures=len(bad), rejected_calls=rejected))
    for m in bad[:3]:
        res.violations.append(dict(case=repr(dict(kind="collect-functions")), observed=m, what=m.split("\n")[0]))

def main(tier, seed):
    warnings.simplefilter("ignore")
    res = core.Result(PID, tier, seed)
    core.prove(res, PID)
    rng = random.Random(seed * 71 + 10)
    # correspondence of the model in both modes
    n = 3000 if tier == "quick" else 50000
    pc = []
    for i in range(n):
        c = parsesuite.gen_case(rng) if i % 3 else parsesuite.gen_union_case(rng)
        c["options"] = dict(c["options"], collect_errors=(i % 2 == 0))
        if c["options"]["collect_errors"] and rng.random() < 0.4:
            c["options"]["max_errors"] = rng.choice([1, 2, 3])
        else:
            c["options"].pop("max_errors", None)
        pc.append(c)
    parsesuite.run_suite(res, pc, "parse-both-modes")
    # the property itself on data classes: verdict, value, reported items, cap
    m = 3000 if tier == "quick" else 40000
    cases = gen_cases(rng, m)
    outs = core.pool_map(run_both, cases)
    bad = []
    kinds = {}
    for c, o in zip(cases, outs):
        if o[0] in ("timeout", "harness-error"):
            bad.append((c, o, "call did not complete: %r" % (o,)))
            continue
        key = "%s/%s" % (o[0][0], o[1][0])
        kinds[key] = kinds.get(key, 0) + 1
        msg = judge(c, o)
        if msg:
            bad.append((c, o, msg))
    res.add_suite("collect", len(cases), len({repr((c["cls"], c["data"], c["max_errors"], c["addition"])) for c in cases}),
                  [dict(case={k: repr(v) for k, v in cases[0].items()}, outcome=repr(outs[0]))],
                  "classes of 2-5 typed fields; each field independently valid / invalid / missing (the generator records which), "
                  "optional unknown key, max_errors in {None,1,2,3}; the same input parsed fail-fast and collecting; judged: same verdict, "
                  "same value, reported items == failing items (prefix of size max_errors when capped), no valid item reported",
                  dict(verdict_pairs=kinds, failures=len(bad)))
    for c, o, msg in bad[:3]:
        res.violations.append(dict(case=repr(dict(src=c["src"], data=c["data"], max_errors=c["max_errors"], addition=c["addition"],
                                                    failing=c["failing"], extra=c["extra"])),
                                   observed=repr(o), what=msg))
    fields_suite(res, rng, tier)
    shapes_suite(res, tier, seed)
    functions_suite(res, tier, seed)
    return core.finish(res, "make -C coq Props/C10.vo && coqc (Print Assumptions audit)", "see suites", search=None,
                       level_note="C10_same_verdict_and_value is proved for every declared type of the parse calculus (simulation between the "
                                  "fail-fast and the collecting run, construct by construct, tied by induction on the fuel); for data-class field "
                                  "loops the simulation is proved for parse_value, the loops themselves and the exactness of the reported items "
                                  "are decided by the collect suite (correspondence + direct oracle)")


def replay(path):
    import json
    d = json.loads(open(path).read())
    if "case" not in d:
        print(json.dumps(d, indent=1)[:4000])
        r = core.build(["Props/%s.vo" % PID])
        return 0 if r["ok"] else 1
    c = eval(d["case"], {"Decimal": Decimal})
    if c.get("kind") == "fields":
        names = []
        for collect in (False, True):
            n2 = dyn.fresh("Rp")
            kw = dict(c["okw"], collect_errors=collect)
            lines = [l for l in c["src"].rstrip("\n").split("\n") if "__options__" not in l]
            lines[0] = re.sub(r"class \w+\(", "class %s(" % n2, lines[0], 1)
            lines.insert(1, "    __options__ = Options(%s)" % ", ".join("%s=%r" % kv for kv in kw.items()))
            dyn.declare("\n".join(lines) + "\n")
            names.append(n2)
        msg = judge_fields(dict(c, names=names))
        print("class:\n" + c["src"], c["okw"], "\ninput:", c["data"])
        print("VIOLATED: " + msg if msg else "property holds on this case")
        return 1 if msg else 0
    name = re.search(r"class (\w+)\(", c["src"]).group(1)
    dyn.declare(c["src"])
    c["cls"] = name
    o = run_both(c)
    msg = judge(c, o)
    print("class:\n" + c["src"] + "\ninput:", c["data"], "\nfail-fast / collecting:", o)
    print("VIOLATED: " + msg if msg else "property holds on this case")
    return 1 if msg else 0
