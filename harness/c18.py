"""C18 — the depth limit is exact and parse cost stays bounded."""
import random, time, warnings
from . import core, dc, dcsuite, decl, dyn, findings

PID = "C18"
KINDS = ["list", "optional", "dict", "tuple", "union", "dictf", "dictd", "dictb", "listopt", "dictn", "listoo", "dictou"]


def gen_cases(rng, n):
    cases, classes = [], {}
    for kind in KINDS:
        for d in [None, 1, 2, 3, 4]:
            for base in ["Schema", "DataClass"]:
                for extra in [{}, {"collect_errors": True}, {"no_data_loss": True}]:
                    cls, src = dc.node_class(kind, d, base, extra)
                    classes[cls.__name__] = (kind, d, src)
                if base == "Schema":
                    cls, src = dc.node_class(kind, d, base, {}, optional_v=True)
                    classes[cls.__name__] = (kind + "+optv", d, src)
    names = list(classes)
    while len(cases) < n:
        name = rng.choice(names)
        kind, d, _ = classes[name]
        depth = rng.randint(1, 6)
        optv = kind.endswith("+optv")
        kind = kind.split("+")[0]
        # (in the union kind an empty mapping is also a valid int: the int argument may take a too-deep one)
        if kind in ("listoo", "dictou"):
            depth = min(depth, 4)      # unions inside unions multiply the retries per level (the listed cost finding): keep these small
        v = dc.tree_input(rng, kind, depth, bad_leaf=rng.random() < 0.15, width=2 if kind in ("listoo", "dictou") else 3,
                          empty_leaf=optv and kind not in ("union", "dictou"))   # (an empty mapping is also a valid int: the int arm may take it)
        if rng.random() < 0.1:
            v = [v]                    # a list wrapping a single mapping is unwrapped by the converter
        ropts = None
        if d is None and rng.random() < 0.5:
            # the limit given by overriding options at run time: it applies to every nested class, through every link kind
            d = rng.randint(1, 4)
            ropts = dict(max_depth=d, override=True)
        cases.append(dict(cls=name, ropts=ropts, data=v, kind=kind, max_depth=d))
    return cases, classes


def oracle(case, out):
    """the property on the implementation: a well-formed tree is accepted iff nesting <= max_depth"""
    v = case["data"]
    if isinstance(v, list):
        return None
    if "x" in repr(v):          # contains the invalid leaf: rejected for another reason
        return None
    n = dc.nesting(v, case["kind"])
    d = case["max_depth"]
    want = d is None or n <= d
    if out[0] == "ok" and not want:
        return "nesting %d accepted with max_depth=%s" % (n, d)
    if out[0] != "ok" and want:
        return "nesting %d rejected with max_depth=%s (%r)" % (n, d, out)
    return None


def exp_cost_finding():
    """leaf conversions for an Optional['Node'] chain with one invalid leaf at the bottom"""
    name = dyn.fresh("Cost")
    src = ("_cnt_%s = [0]\nclass Leaf%s(int, Rule):\n    @classmethod\n    def pre_validate(cls, value, context=None):\n"
           "        _cnt_%s[0] += 1\n        return value\n"
           "class %s(Schema):\n    v: Leaf%s\n    nxt: Optional['%s'] = None\n" % (name, name, name, name, name, name))
    dyn.declare(src)
    cls, cnt = dyn.get(name), dyn.get("_cnt_" + name)
    counts = []
    for n in range(1, 9):
        d = {"v": "x"}
        for _ in range(n - 1):
            d = {"v": 1, "nxt": d}
        cnt[0] = 0
        try:
            cls.__from__(d)
        except Exception:
            pass
        counts.append(cnt[0])
    exp_cost_finding.counts = counts
    return counts[-1] >= 2.5 * counts[-2] >= 2.5 * 2.5 * counts[-3]


def strict_cost_check():
    """a recursive class reached through a union, declared fully strict (both flags): the staged union has nothing to retry,
    a chain with one invalid leaf at the bottom must cost a number of leaf conversions linear in its depth"""
    out = []
    for ann in ("Optional['%s'] = None", "Union[int, '%s', None] = None"):
        name = dyn.fresh("Sc")
        src = ("_cnt_%s = [0]\nclass Leaf%s(int, Rule):\n    @classmethod\n    def pre_validate(cls, value, context=None):\n"
               "        _cnt_%s[0] += 1\n        return value\n"
               "class %s(Schema):\n    __options__ = Options(no_explicit_cast=True, no_data_loss=True)\n    v: Leaf%s\n    nxt: %s\n"
               % (name, name, name, name, name, ann % name))
        dyn.declare(src)
        cls, cnt = dyn.get(name), dyn.get("_cnt_" + name)
        counts = []
        for n in (3, 6, 9, 12):
            d = {"v": "x"}
            for _ in range(n - 1):
                d = {"v": 1, "nxt": d}
            cnt[0] = 0
            try:
                cls.__from__(d)
            except Exception:
                pass
            counts.append(cnt[0])
        out.append((ann, counts))
        if counts[-1] > 8 * 12:
            return "fully strict class %s: leaf conversions for an invalid leaf at depth 3 / 6 / 9 / 12: %r (not linear)\n%s" % (name, counts, src), out
    return None, out


SUBJECTS = [("list", "node_decl_ex"), ("dict", "dnode_decl_ex"), ("optional", "onode_decl_ex"), ("union", "unode_decl_ex"), ("tuple", "tnode_decl_ex")]


def subject_tie(res):
    """the classes the theorems of Props/C18.v speak about are exactly what the real declarations reflect to: each of the
    three classes is declared with the real library for several limits, reflected (decl.reflect_class) and compared in Coq,
    by conversion, with node_decl_ex / dnode_decl_ex / onode_decl_ex applied to the reflected exclude list and the limit"""
    goals, n = [], 0
    for kind, name in SUBJECTS:
        for d in (1, 2, 5):
            cls, src = dc.node_class(kind, d, "Schema", {})
            w = decl.World()
            cid = w.cid(cls)
            goals.append("Definition R%d : cdecl := %s.\nGoal R%d = %s (c_exclude_vars R%d) (Some %d).\n"
                         "first [reflexivity; idtac \"TIE-OK %d\" | idtac \"TIE-BAD %d\"]. Abort.\n"
                         % (n, w.decls[cid], n, name, n, d, n, n))
            n += 1
    rc, out = core.coq_eval("c18_subjects", ["Parse", "DepthSpec"], "\n".join(goals))
    ok = len([l for l in out.splitlines() if l.startswith("TIE-OK")])
    bad = [l for l in out.splitlines() if l.startswith("TIE-BAD")]
    res.add_suite("theorem-subjects", n, ok, [dict(case="class Node(Schema): v: int; link: List['Node'] / Dict[str,'Node'] / Optional['Node'] / Union['Node', int, None] / Tuple['Node', ...], max_depth=1/2/5",
                                                   impl="reflected declaration == the declaration the theorem quantifies over")],
                  "the real classes of the proved families reflect to the theorems' declarations (by conversion in Coq)",
                  dict(mismatches=len(bad)))
    if rc != 0 or bad or ok != n:
        res.broken.append(dict(kind="correspondence", name="theorem-subjects",
                               detail="the reflected classes differ from the theorems' declarations: %s\n%s" % (bad, out[-1200:])))



def cycle_case(i_seed):
    """cyclic inputs: a mapping that contains itself through the link, and a list / tuple that contains itself standing where a
    node is expected; with a limit they are rejected with a ParseError, and in bounded time"""
    import signal
    from utype.utils import exceptions as exc
    warnings.simplefilter("ignore")
    rng = random.Random(i_seed)
    kind = rng.choice(["list", "optional", "dict", "tuple", "union", "listopt", "listoo", "dictou"])
    d = rng.randint(1, 4)
    cls, src = dc.node_class(kind, d, rng.choice(["Schema", "DataClass"]), {})
    shape = rng.choice(["dict-cycle", "list-self", "tuple-self", "list-self-deep"])
    wrap = {"list": lambda x: [x], "listopt": lambda x: [x], "listoo": lambda x: [x], "tuple": lambda x: (x,),
            "dict": lambda x: {"a": x}, "dictou": lambda x: {"a": x}}.get(kind, lambda x: x)
    if shape == "dict-cycle":
        node = {"v": 1}
        node["link"] = wrap(node)
        data = node
    else:
        k = []
        if shape == "list-self":
            k.append(k)
            bad = k
        elif shape == "tuple-self":
            t = (k,)
            k.append(t)
            bad = t
        else:
            k.append([k])
            bad = k
        data = {"v": 1, "link": wrap(bad)}

    def on_alarm(*a):
        raise TimeoutError()
    signal.signal(signal.SIGALRM, on_alarm)
    signal.setitimer(signal.ITIMER_REAL, 4.0)
    try:
        try:
            cls.__from__(data)
            out = "accepted"
        except exc.ParseError:
            out = "parse"
        except TimeoutError:
            out = "no answer within 4 s (unbounded work)"
        except RecursionError:
            out = "RecursionError"
        except Exception as e:
            out = "%s: %s" % (type(e).__name__, str(e)[:80])
    finally:
        signal.setitimer(signal.ITIMER_REAL, 0)
    if out != "parse":
        return "cyclic input (%s through %s, max_depth=%d): %s\n%s" % (shape, kind, d, out, src)
    return ("parse", kind, shape)


def cycles_suite(res, tier, seed):
    n = 240 if tier == "quick" else 4000
    outs = core.pool_map(cycle_case, [seed * 3000017 + i for i in range(n)])
    bad = [o if isinstance(o, str) else "cyclic input: the call did not complete (%r)" % (o,)
           for o in outs if not (isinstance(o, tuple) and o and o[0] == "parse")]
    res.add_suite("cyclic-inputs", n, len({o[1:] for o in outs if isinstance(o, tuple) and o and o[0] == "parse"}),
                  [dict(kind="list", shape="a list that contains itself where a node is expected", expect="ParseError, at once")],
                  "8 link kinds x max_depth 1..4 x 4 cyclic shapes (mapping through its own link; self-containing list / tuple in a node "
                  "position): rejected with ParseError within the time limit", dict(failures=len(bad)))
    for m in bad[:2]:
        res.violations.append(dict(case=repr(dict(kind="cyclic-inputs")), observed=m, what="a cyclic input is not rejected: " + m.split("\n")[0]))

def main(tier, seed):
    warnings.simplefilter("ignore")
    res = core.Result(PID, tier, seed)
    core.prove(res, PID)
    rng = random.Random(seed * 41 + 18)
    cases, classes = gen_cases(rng, 2500 if tier == "quick" else 40000)
    r = dcsuite.run_suite(res, cases, "depth", rule="self-referencing classes (link through List / Optional / Dict[str|float|Decimal|bool] / "
                          "Tuple[...] / Union / List[Optional]) x max_depth in {None,1..4} x Schema/DataClass x 3 option sets x tree inputs "
                          "of depth 1..6 with the deep branch at a random position; compared with Model/Parse.v; non-trivial = modelled",
                          extra=dict(kinds=KINDS))
    if r:
        mism, outs = r
        bad = []
        for c, o in zip(cases, outs):
            msg = oracle(c, o)
            if msg:
                bad.append((c, o, msg))
        res.cov["suites"]["depth"]["oracle_failures"] = len(bad)
        for c, o, msg in bad[:3]:
            res.violations.append(dict(case=repr(dict(cls_source=classes[c["cls"]][2], data=c["data"])), observed=repr(o)[:300],
                                       what="depth limit not exact: " + msg))
    subject_tie(res)
    cycles_suite(res, tier, seed)
    msg, cost_table = strict_cost_check()
    res.cov["leaf_conversions_strict_class_depth_3_6_9_12"] = [c for _, c in cost_table]
    if msg:
        res.violations.append(dict(case=repr(dict(kind="strict-cost")), observed=msg, what=msg))
    findings.replay_all(res, PID, {"C18-exp-cost": exp_cost_finding})
    res.cov["leaf_conversions_invalid_chain_depth_1_to_8"] = getattr(exp_cost_finding, "counts", None)
    return core.finish(res, "make -C coq Props/C18.vo && coqc (Print Assumptions audit)", "see suites", search=None,
                       level_note="exactness is a theorem for the List['Node'], Dict[str,'Node'], Optional['Node'], Union['Node', int, None] and Tuple['Node', ...] families over all "
                                  "trees / chains (the declarations are tied to the reflected real classes by the theorem-subjects "
                                  "suite); the other link kinds and option sets are covered by the depth correspondence suite + the "
                                  "nesting oracle; the cost half is a known finding (exponential), measured, not proved")


def replay(path):
    import json
    d = json.loads(open(path).read())
    if "case" not in d:
        print(json.dumps(d, indent=1)[:4000])
        r = core.build(["Props/%s.vo" % PID])
        return 0 if r["ok"] else 1
    from decimal import Decimal
    c = eval(d["case"], {"Decimal": Decimal})
    src = c["cls_source"]
    import re
    name = re.search(r"class (\w+)\(", src).group(1)
    dyn.declare(src)
    cls = dyn.get(name)
    md = re.search(r"max_depth=(\d+)", src)
    try:
        cls.__from__(c["data"])
        out = ("ok",)
    except Exception as e:
        out = ("rejected", type(e).__name__)
    n = dc.nesting(c["data"])
    print("source:\n" + src + "\ninput nesting:", n, "max_depth:", md.group(1) if md else None, "->", out)
    want = md is None or n <= int(md.group(1))
    ok = (out[0] == "ok") == want
    print("property holds on this case" if ok else "property VIOLATED on this case")
    return 0 if ok else 1
