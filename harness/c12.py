"""C12 — conversion preferences only restrict, and keep their promises."""
import random, warnings, math, datetime, uuid, enum
from decimal import Decimal
from . import core, decl, gen, parsesuite

PID = "C12"
TARGETS = ["none", "bool", "int", "float", "decimal", "str", "bytes", "list", "tuple", "set", "frozenset", "dict"]
PYT = {"none": type(None), "bool": bool, "int": int, "float": float, "decimal": Decimal, "str": str, "bytes": bytes,
       "list": list, "tuple": tuple, "set": set, "frozenset": frozenset, "dict": dict}


class Color(enum.Enum):
    R = 1
    G = "g"


class Stamp(enum.Enum):
    EPOCH = 0
    LATER = 1577934245


class Span(enum.Enum):
    SHORT = "P1DT00H00M00S"
    NAME = "g"


class NumEnum(int, enum.Enum):
    A = 1
    B = 2


class Swap(str, enum.Enum):      # every name is another member's value
    a = "b"
    b = "a"


ENUM_SOURCES = [Color.R, Color.G, Stamp.EPOCH, Stamp.LATER, Span.SHORT, Span.NAME]
ENUM_TARGET_VALUES = ["a", "b", "A", "B", "R", "G", "g", 1, 2, "1", 1.0, True, [1], ["a"], ("b",), b"a", None, 3]
EXTRA_T = [datetime.datetime, datetime.date, datetime.time, datetime.timedelta, uuid.UUID, Color, complex, NumEnum, Swap]


def union_targets():
    """unions of builtin targets: the flags must only restrict there too (the strict stage is what makes a flagged parse
    pick the same argument as the unflagged one)"""
    from utype import Rule
    from typing import Union, List
    return [Rule.parse_annotation(x) for x in (Union[int, str], Union[int, float], Union[float, int], Union[str, int], Union[Decimal, int, str],
                                               Union[List[int], str], Union[bool, int], Union[bytes, str], Union[int, None])]
EXTRA_V = [datetime.datetime(2020, 1, 2, 3, 4, 5), datetime.date(2020, 1, 2), datetime.time(3, 4, 5), datetime.timedelta(seconds=90),
           "2020-01-02", "2020-01-02 03:04:05", "2020-01-02T03:04:05Z", "03:04:05", 1577934245, 1577934245.5, "1577934245",
           "12345678-1234-5678-1234-567812345678", 1, "g", "R", "P1DT2H", "1:30:00", b"2020-01-02", Decimal("90.5"), True, None,
           [1], "1+2j", (1, 2), 1.5, 2.5, 2.75, Decimal("1.5"), Decimal("2.75"), 1.0, Decimal("2"),
           "2020-02-20 00:00:00.250000", "2020-02-20T00:00:00.000001", "2020-02-20 00:00:00", "2020-02-20T00:00:01",
           datetime.datetime(2020, 2, 20, 0, 0, 0, 250000), datetime.datetime(2020, 2, 20), datetime.datetime(2020, 2, 20, 0, 0, 1),
           b"2020-02-20 00:00:00.5"]
# bytes that are not valid UTF-8 (no_data_loss must reject them wherever they would be decoded)
BAD_BYTES = ["\u6d4b\u8bd51".encode("gbk"), b"\xfftrue", bytearray(b"\xe9\x80no"), b"\xff12", b"1\xfe", bytearray(b"\xff0"), b"\xfffalse",
             b"\xff2020-01-02", b"\xc3(1.5"]


def source_value(rng):
    k = rng.random()
    if k < 0.5:
        return gen.scalar(rng)
    if k < 0.8:
        return gen.value(rng, 1)
    if k > 0.93:
        return rng.choice(BAD_BYTES)
    return rng.choice([[5], ("7",), {"1"}, [1, 2], (1.5, 2), {"a": 1}, {}, [], (), b"12", b"true", "  12 ", "0", "1", 0.0, 1.0,
                       [{"a": 1, "b": 2}], ({"a": 1},), ({"a": 1, "b": 2},), ({"xy": 1, "zw": 2},), [{"a": 1, "b": 2}, {"c": 3, "d": 4}], [("a", 1), ("b", 2)], [["a", 1]],
                       Decimal("0"), Decimal("1"), Decimal("1.0"), Decimal("1E+2"), 10 ** 17, float(2 ** 60), "1e2", "Infinity"])


def gen_case(rng):
    t = rng.choice(TARGETS)
    return dict(spec=("prim", t), value=source_value(rng))


def conv(t, v, nec, ndl):
    import utype
    from utype.utils.transform import type_transform
    warnings.simplefilter("ignore")
    try:
        r = type_transform(v, t, utype.Options(no_explicit_cast=nec, no_data_loss=ndl))
        return ("ok", r)
    except Exception as e:
        return ("err", type(e).__name__)


def same(a, b):
    if type(a) is not type(b):
        return False
    try:
        if a == b:
            return True
        return a != a and b != b
    except Exception:
        return False


def group(v):
    if v is None: return "null"
    if isinstance(v, bool): return "boolean"
    if isinstance(v, (int, float, Decimal)): return "number"
    if isinstance(v, (str, bytes, bytearray)): return "string"
    if isinstance(v, (list, tuple, set, frozenset)): return "array"
    if isinstance(v, dict): return "object"
    return "other"


TGROUP = {type(None): "null", bool: "boolean", int: "number", float: "number", Decimal: "number", str: "string", bytes: "string",
          list: "array", tuple: "array", set: "array", frozenset: "array", dict: "object"}


DECODING = (str, bool, int, float, Decimal, type(None))


def valid_utf8(b):
    try:
        bytes(b).decode("utf-8")
        return True
    except UnicodeDecodeError:
        return False


def timed(v):
    """a datetime, or a date-time string, whose time of day is not midnight"""
    if isinstance(v, datetime.datetime):
        return v.time().replace(tzinfo=None) != datetime.time(0, 0)
    if isinstance(v, (bytes, bytearray)):
        try:
            v = bytes(v).decode()
        except UnicodeDecodeError:
            return False
    if isinstance(v, str) and ":" in v:
        import re
        m = re.match(r"\s*\d{4}-\d{2}-\d{2}[T ](.*)$", v)
        if not m:
            return False
        tpart = re.split(r"[zZ+]|(?<=\d)-(?=\d\d:)", m.group(1))[0]
        return any(ch in "123456789" for ch in tpart)
    return False


def judge(t, v):
    """the property on one (source value, target) pair: returns None or a description"""
    res = {(nec, ndl): conv(t, v, nec, ndl) for nec in (False, True) for ndl in (False, True)}
    lenient = res[(False, False)]
    for (nec, ndl), r in res.items():
        if r[0] != "ok":
            continue
        # only restricts: what converts under the flag(s) converts without them, to an equal value of the same type (the
        # statement's comparison: against the parse with neither flag).  For the builtin targets the model proves more
        # (C12_no_data_loss_only_restricts / C12_no_explicit_cast_only_restricts hold for each value of the other flag), so
        # there every weaker combination is compared; for the standard-library targets outside the model the property does not
        # order the two single-flag parses against the double-flag one
        full_lattice = t in PYT.values()
        for (nec2, ndl2), r2 in res.items():
            if (nec2 <= nec) and (ndl2 <= ndl) and (nec2, ndl2) != (nec, ndl) and (full_lattice or (nec2, ndl2) == (False, False)):
                if r2[0] != "ok":
                    return "converts to %r under (nec=%s, ndl=%s) but fails under the weaker (nec=%s, ndl=%s)" % (r[1], nec, ndl, nec2, ndl2)
                if not same(r[1], r2[1]):
                    return "(nec=%s, ndl=%s) gives %r but the weaker (nec=%s, ndl=%s) gives %r" % (nec, ndl, r[1], nec2, ndl2, r2[1])
        if ndl:
            if t is int and isinstance(v, (float, Decimal)) and not isinstance(v, bool):
                if not (v == r[1]):
                    return "no_data_loss: %r became the int %r" % (v, r[1])
            if isinstance(t, type) and issubclass(t, enum.Enum) and issubclass(t, int) and isinstance(v, (float, Decimal)) \
                    and not isinstance(v, bool) and not (v == r[1].value):
                # the same promise through an Enum whose members are ints
                return "no_data_loss: %r became %r (value %r)" % (v, r[1], r[1].value)
            if t is bool and not isinstance(v, bool):
                ok = False
                try:
                    ok = (v == 1 or v == 0)
                except Exception:
                    pass
                if isinstance(v, (str, bytes)):
                    s = (v.decode() if isinstance(v, bytes) else v).lower()
                    ok = ok or s in ("0", "false", "no", "off", "f", "1", "true", "yes", "on", "t", "y")
                if not ok:
                    return "no_data_loss: ambiguous %r became the bool %r" % (v, r[1])
            if isinstance(v, (list, tuple, set, frozenset)) and len(v) > 1 and t in (int, float, str, bool, Decimal, bytes, type(None)):
                return "no_data_loss: the %d-element collection %r collapsed to %r" % (len(v), v, r[1])
            if t is datetime.date and timed(v):
                return "no_data_loss: %r (with a time of day) became the date %r" % (v, r[1])
            if isinstance(v, (bytes, bytearray)) and not valid_utf8(v) and (t in DECODING or t in EXTRA_T):
                return "no_data_loss: bytes that are not valid UTF-8 (%r) were decoded and became %r" % (v, r[1])
        if nec and isinstance(v, enum.Enum) and not isinstance(v, (int, str)) and isinstance(t, type) and not isinstance(v, t):
            return "no_explicit_cast: the Enum member %r (no primitive group) converted to %s: %r" % (v, t.__name__, r[1])
        if nec and t in TGROUP:
            gv, gt = group(v), TGROUP[t]
            allowed = gv == gt or (gv == "boolean" and gt == "number") or (gv == "number" and t is bool and v in (0, 1)) or \
                (t is Decimal and gv == "string") or type(v) is t
            if not allowed:
                return "no_explicit_cast: %r (group %s) converted to %s (group %s): %r" % (v, gv, t.__name__, gt, r[1])
    return None


def run_judge(i_seed):
    rng = random.Random(i_seed)
    k0 = rng.random()
    if k0 < 0.03:
        t, v = rng.choice([Color, NumEnum, Swap]), rng.choice(ENUM_TARGET_VALUES)
    elif k0 < 0.07:
        t, v = rng.choice([dict, dict, list, tuple, str]), rng.choice([[{"a": 1, "b": 2}], ({"a": 1},), ({"a": 1, "b": 2},), ({"xy": 1, "zw": 2},), [{"a": 1, "b": 2}, {"c": 3, "d": 4}], [("a", 1), ("b", 2)],
                                                                        [["a", 1]], [{"a": 1}], [{}], [[]], [{"a": {"b": 1}}]])
    elif k0 < 0.1:
        t, v = rng.choice(EXTRA_T + [str, bytes, int, float]), rng.choice(ENUM_SOURCES)
    elif k0 < 0.4:
        t, v = rng.choice(EXTRA_T), rng.choice(EXTRA_V + [source_value(rng)])
    else:
        t, v = PYT[rng.choice(TARGETS)], source_value(rng)
    msg = judge(t, v)
    return (repr(t), repr(v), msg)


def dataclass_case(i_seed):
    """data classes as conversion targets (the subclass clause of the quantifier): the four flag combinations as class options"""
    import utype
    from utype.utils.transform import type_transform
    from . import dyn
    warnings.simplefilter("ignore")
    rng = random.Random(i_seed)
    base = rng.choice(["Schema", "DataClass"])
    t = dyn.fresh("Cd")
    names = {}
    for nec in (False, True):
        for ndl in (False, True):
            nm = "%s_%d%d" % (t, nec, ndl)
            dyn.declare("class %s(%s):\n    __options__ = Options(no_explicit_cast=%r, no_data_loss=%r)\n    a: int\n    b: str = 'x'\n" % (nm, base, nec, ndl))
            names[(nec, ndl)] = dyn.get(nm)
    a = rng.choice([1, "1", 1.0, 1.5, "x", True])
    d = {"a": a}
    if rng.random() < 0.4: d["b"] = rng.choice(["y", 5])
    if rng.random() < 0.4: d["zz"] = 1
    shape = rng.choice(["dict", "list1", "list2", "inst2", "json", "inst-first"])
    res = {}
    for key, K in names.items():
        if shape == "dict": v = dict(d)
        elif shape == "list1": v = [dict(d)]
        elif shape == "list2": v = [dict(d), {"a": 2}]
        elif shape == "json":
            import json as _j
            v = _j.dumps(d)
        else:
            try:
                first = K(a=1)
            except Exception:
                return None
            v = [first, K(a=2)] if shape == "inst2" else [first, dict(d)]
        try:
            r = type_transform(v, K, utype.Options(no_explicit_cast=key[0], no_data_loss=key[1]))
            res[key] = ("ok", {k: getattr(r, k, None) for k in ("a", "b")})
        except Exception as e:
            res[key] = ("err", type(e).__name__)
    for (nec, ndl), r in res.items():
        if r[0] != "ok":
            continue
        for (nec2, ndl2), r2 in res.items():
            if nec2 <= nec and ndl2 <= ndl and (nec2, ndl2) != (nec, ndl):
                if r2[0] != "ok" or repr(r2[1]) != repr(r[1]):
                    return "data class (%s) from %s %r: (nec=%s, ndl=%s) gives %r but the weaker (nec=%s, ndl=%s) gives %r" % (base, shape, d, nec, ndl, r, nec2, ndl2, r2)
        if ndl and shape in ("list2", "inst2", "inst-first"):
            return "no_data_loss: a 2-element list (%s, %r) collapsed to one instance %r" % (shape, d, r[1])
        if ndl and "zz" in d and shape in ("dict", "list1", "json"):
            return "no_data_loss: the unknown key 'zz' of %r was dropped silently (%r)" % (d, r[1])
    return ("ok", shape)


def dataclass_suite(res, tier, seed):
    n = 1500 if tier == "quick" else 25000
    outs = core.pool_map(dataclass_case, [seed * 1000151 + i for i in range(n)])
    bad = [o for o in outs if isinstance(o, str)]
    res.add_suite("dataclass-targets", n, n, ["seeded: Schema / DataClass (a: int, b: str = 'x') x 4 flag sets as class options x 6 input shapes"],
                  "data classes as conversion targets, the four flag combinations given both as class options and as the options of the conversion; inputs: a mapping (with and "
                  "without an unknown key), a JSON text, a one-element list, two-element lists of mappings / instances: stricter flags "
                  "only restrict; under no_data_loss a multi-element list never collapses to one instance and an unknown key is "
                  "never dropped silently", dict(failures=len(bad)))
    for o in bad[:3]:
        res.violations.append(dict(case=repr(dict(kind="dataclass-target")), observed=o, what=o))


def ndl_addition_finding():
    return False


def main(tier, seed):
    warnings.simplefilter("ignore")
    res = core.Result(PID, tier, seed)
    core.prove(res, PID)
    rng = random.Random(seed * 101 + 12)
    # correspondence: the converter grid against Model/Conv.v under the four flag combinations
    n = 5000 if tier == "quick" else 80000
    cases = []
    for i in range(n):
        t = rng.choice(["none", "bool", "int", "float", "decimal", "str", "bytes"]) if rng.random() < 0.6 else None
        if t:
            spec = ("leaf", t)
        else:
            spec = rng.choice([("list", ("leaf", "int"), {}), ("set", ("leaf", "int")), ("vtuple", ("leaf", "str")),
                               ("dict", ("leaf", "str"), ("leaf", "int")), ("tuple", [("leaf", "int"), ("leaf", "str")])])
        fl = i % 4
        kw = {}
        if fl & 1: kw["no_data_loss"] = True
        if fl & 2: kw["no_explicit_cast"] = True
        v = source_value(rng)
        if spec[0] == "tuple" and rng.random() < 0.5:
            # extra items under an explicit addition policy (no_data_loss rejects them whatever `addition` says)
            kw["addition"] = rng.choice([True, True, False])
            v = rng.choice([(1, "a", "3"), [1, "a", 2, 3], (1, "a"), ("2", 5, None), v])
        cases.append(dict(spec=spec, options=kw, value=v))
    parsesuite.run_suite(res, cases, "convert-grid",
                         rule="builtin targets and one-level containers x source values of every kind x the four flag combinations, "
                              "type_transform compared with Model/Conv.v conv_prim / the parse model")
    # the property itself, including the targets outside the model (dates, uuid, enum, complex)
    m = 6000 if tier == "quick" else 100000
    seeds = [seed * 7919 + 31 * i + 5 for i in range(m)]
    outs = core.pool_map(run_judge, seeds)
    bad = [o for o in outs if isinstance(o, tuple) and len(o) == 3 and o[2]]
    res.add_suite("flag-oracle", m, len({(o[0], o[1]) for o in outs if isinstance(o, tuple) and len(o) == 3}),
                  [dict(target=outs[0][0], value=outs[0][1])] if outs and len(outs[0]) == 3 else [],
                  "(source value, target) pairs over 12 builtin and 7 standard-library targets; each converted under the four flag "
                  "combinations; judged: stricter success implies weaker success with an equal value of the same type, the "
                  "no_data_loss promises (int, bool, collapse, date) and the no_explicit_cast group rule",
                  dict(failures=len(bad)))
    # Options.__init__: no_data_loss implies addition=False when addition is given as None
    import utype
    if utype.Options(no_data_loss=True, addition=None).addition is not False:
        res.violations.append(dict(case="Options(no_data_loss=True, addition=None)", observed=repr(utype.Options(no_data_loss=True, addition=None).addition),
                                   what="no_data_loss does not imply addition=False"))
    # extra tuple items are rejected under no_data_loss, whatever `addition` says (the model proves it: C12_ndl_tuple_excess_rejected)
    from typing import Tuple
    from utype.utils.transform import type_transform
    from utype.utils import exceptions as exc
    from utype import Rule
    TT = Rule.parse_annotation(Tuple[int, str])
    for add in (None, True, False, int):
        for val in ((1, "a", "3"), [1, "a", 2, 3]):
            kw = dict(no_data_loss=True) if add is None else dict(no_data_loss=True, addition=add)
            try:
                r = type_transform(val, TT, utype.Options(**kw))
                res.violations.append(dict(case="Tuple[int, str] given %r under Options(%s)" % (val, kw), observed=repr(r),
                                           what="no_data_loss: extra tuple items are not rejected"))
            except exc.ParseError:
                pass
    for t, v, msg in bad[:3]:
        res.violations.append(dict(case="target=%s value=%s" % (t, v), observed=msg, what=msg))
    dataclass_suite(res, tier, seed)
    return core.finish(res, "make -C coq Props/C12.vo && coqc (Print Assumptions audit)", "see suites", search=None,
                       level_note="partial: theorems are about Model/Conv.v (builtin targets; text-to-number via the modelled Decimal grammar); "
                                  "date/time/uuid/enum/complex targets and bytes decoding errors under the flags are "
                                  "judged by the flag oracle and the correspondence suites only")


def replay(path):
    import json
    d = json.loads(open(path).read())
    print(json.dumps(d, indent=1)[:3000])
    if "case" not in d:
        r = core.build(["Props/%s.vo" % PID])
        return 0 if r["ok"] else 1
    return 1
