"""Namespace module for dynamically declared data classes (their string annotations are
resolved against this module's globals, as utype does for any module)."""
from typing import List, Dict, Tuple, Set, Optional, Union, Any, Final
from decimal import Decimal
import utype
from utype import Schema, DataClass, Field, Options, Rule, Lax, Param
from utype.types import PositiveInt, Month, NaturalInt

_S = {}          # prebuilt types referenced as _S[k]
_counter = [0]


def fresh(prefix="K"):
    _counter[0] += 1
    return "%s%d" % (prefix, _counter[0])


def declare(src):
    """exec class/function source text in this module's namespace"""
    exec(compile(src, "<dyn>", "exec"), globals())


def get(name):
    return globals()[name]
