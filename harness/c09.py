"""C09 — logical type combinators mean what they say."""
import random, itertools, warnings
from decimal import Decimal
from . import core, decl, gen, parsesuite

PID = "C09"
LEAVES = ["int", "str", "float", "bool", "none", "posint", "month", "digits", "const5", "enum_ab", "shortstr", "bfloat"]


def gen_logic_case(rng):
    op = rng.choice(["|", "^", "^", "&", "~"])
    if op == "~":
        spec = ("not", ("leaf", rng.choice(LEAVES)))
        perm_of = None
    else:
        leaves = [("leaf", x) for x in rng.sample(LEAVES, rng.randint(2, 3))]
        if rng.random() < 0.2:
            leaves[0] = ("logic", rng.choice(["|", "^"]), [("leaf", x) for x in rng.sample(LEAVES, 2)])
        spec = ("logic", op, leaves)
        perm_of = leaves
    kw = {}
    if rng.random() < 0.2:
        kw["collect_errors"] = True
    fl = rng.randrange(4) if rng.random() < 0.4 else 0
    if fl & 1:
        kw["no_data_loss"] = True
    if fl & 2:
        kw["no_explicit_cast"] = True
    v = decl.valid_value(rng, spec) if rng.random() < 0.85 else gen.scalar(rng)
    return dict(spec=spec, options=kw, value=v)


def permutations_of(case):
    spec = case["spec"]
    if spec[0] != "logic" or spec[1] == "&":
        return []
    out = []
    for p in itertools.permutations(spec[2]):
        if list(p) != list(spec[2]):
            out.append(dict(case, spec=("logic", spec[1], list(p))))
    return out


def run_one(case):
    import utype
    from utype.utils.transform import type_transform
    warnings.simplefilter("ignore")
    try:
        T = parsesuite.build(case["spec"])
        o = utype.Options(**case["options"])
    except Exception as e:
        return ("config-error",)
    try:
        return ("ok", type_transform(case["value"], T, o))
    except Exception as e:
        return core.classify_exc(e)


def arg_verdicts(case):
    """what each argument says about the given input (used by the oracle)"""
    spec = case["spec"]
    args = spec[2] if spec[0] == "logic" else [spec[1]]
    return [run_one(dict(case, spec=a)) for a in args]


def oracle(case):
    """the property, stated on the implementation: returns None or a description"""
    spec = case["spec"]
    r = run_one(case)
    if r[0] not in ("ok", "parse"):
        return None if r[0] == "config-error" else "unexpected outcome %r" % (r,)
    if spec[0] == "logic" and spec[1] == "&":
        # conjunction: the arguments applied in order to the running value
        cur = case["value"]
        for a in spec[2]:
            ra = run_one(dict(case, spec=a, value=cur))
            if ra[0] not in ("ok", "parse"):
                return None
            if ra[0] == "parse":
                return None if r[0] == "parse" else "conjunction accepts (%r) although argument %r rejects the running value %r" % (r[1], a, cur)
            cur = ra[1]
        if r[0] != "ok":
            return "conjunction rejects although every argument accepts the running value in order (expected %r)" % (cur,)
        try:
            if not (r[1] == cur or (r[1] != r[1] and cur != cur)) or type(r[1]) is not type(cur):
                return "conjunction gives %r, the arguments applied in order give %r" % (r[1], cur)
        except Exception:
            pass
        return None
    av = arg_verdicts(case)
    if any(a[0] not in ("ok", "parse") for a in av):
        return None
    n_ok = sum(1 for a in av if a[0] == "ok")
    v = case["value"]
    if spec[0] == "not":
        want = n_ok == 0
        if (r[0] == "ok") != want:
            return "~T %s although T %s" % ("accepts" if r[0] == "ok" else "rejects", "accepts" if n_ok else "rejects")
        if r[0] == "ok" and not (r[1] is v or r[1] == v or (r[1] != r[1])):
            return "~T altered the input: %r -> %r" % (v, r[1])
        return None
    op = spec[1]
    args = [parsesuite.build(a) for a in spec[2]]
    exact = [a for a in args if type(v) == a]
    if op == "|":
        if exact:
            return None if (r[0] == "ok" and (r[1] is v or (r[1] == v and type(r[1]) is type(v)))) else "a value of an argument's exact class is not returned unchanged: %r -> %r" % (v, r)
        # an argument "accepts" when it does so under the given options or under one of the stricter option sets the
        # union tries first (strict, no-loss): with a nested ^ argument stricter options can accept what lenient ones reject
        if n_ok == 0:
            for extra in (dict(no_data_loss=True, no_explicit_cast=True), dict(no_data_loss=True)):
                c2 = dict(case, options=dict(case["options"], **extra))
                n_ok += sum(1 for a in arg_verdicts(c2) if a[0] == "ok")
        if (r[0] == "ok") != (n_ok > 0):
            return "union %s although %d argument(s) accept" % ("accepts" if r[0] == "ok" else "rejects", n_ok)
        return None
    if op == "^":
        if exact:
            return None if (r[0] == "ok" and (r[1] is v or (r[1] == v and type(r[1]) is type(v)))) else "exact-class value not returned unchanged by ^"
        if (r[0] == "ok") != (n_ok == 1):
            return "xor %s although %d argument(s) accept the given input" % ("accepts" if r[0] == "ok" else "rejects", n_ok)
        for p in permutations_of(case):
            rp = run_one(p)
            if (rp[0] == "ok") != (r[0] == "ok"):
                return "xor verdict depends on argument order: %r vs %r in order %r" % (r, rp, p["spec"][2])
            if rp[0] == "ok":
                try:
                    if not (rp[1] == r[1] or r[1] != r[1]):
                        return "xor value depends on argument order: %r vs %r" % (r[1], rp[1])
                except Exception:
                    pass
        return None
    return None


# ---------------- construction algebra ----------------
def gen_combine_case(rng):
    pool = ["int", "str", "float", "posint", "month", "any", "none", "digits"]
    n = rng.randint(1, 4)
    args = [rng.choice(pool) for _ in range(n)]
    op = rng.choice(["|", "^", "&", "~"])
    if op == "~":
        args = args[:1]
    nested = None
    if rng.random() < 0.4 and op != "~":
        nested = (rng.choice(["|", "^", "&"]), [rng.choice(pool) for _ in range(rng.randint(2, 3))], rng.random() < 0.5)
    return dict(op=op, args=args, nested=nested)


_objs = {}


def obj(name):
    import typing
    if name == "any":
        return typing.Any
    if name not in _objs:
        _objs[name] = decl.build_leaf(name)
    return _objs[name]


def run_combine(case):
    from utype.parser.rule import LogicalType, Rule
    warnings.simplefilter("ignore")
    args = [obj(a) for a in case["args"]]
    if case["op"] == "~":
        T = LogicalType.combine("~", args[0])
        TT = ~T if isinstance(T, LogicalType) else None
        return ("ok", T, TT)
    T = LogicalType.combine(case["op"], *args)
    if case["nested"] and isinstance(T, LogicalType) and T is not Rule:
        nop, nargs, rev = case["nested"]
        other = LogicalType.combine(nop, *[obj(a) for a in nargs])
        if isinstance(other, LogicalType):
            T2 = T.combine_by(nop, other, reverse=rev)
            return ("ok2", T, other, T2, nop, rev)
    return ("ok", T, None)


def combine_suite(res, tier, seed):
    rng = random.Random(seed * 83 + 909)
    n = 1500 if tier == "quick" else 20000
    cases = [gen_combine_case(rng) for _ in range(n)]
    world = decl.World()
    lines = []
    OP = {"&": "CAnd", "|": "COr", "^": "CXor", "~": "CNot"}
    for c in cases:
        try:
            r = run_combine(c)
            targs = decl.coq_list([decl.reflect_type(world, obj(a)) for a in c["args"]])
            if r[0] == "ok":
                got = decl.reflect_type(world, r[1])
                line = "ty_eqb (Combine.combine %s %s) %s" % (OP[c["op"]], targs, got)
                if r[2] is not None:
                    line += " && ty_eqb (invert (Combine.combine %s %s)) %s" % (OP[c["op"]], targs, decl.reflect_type(world, r[2]))
            else:
                _, T, other, T2, nop, rev = r
                line = "ty_eqb (combine_by %s %s %s %s) %s" % (OP[nop], decl.reflect_type(world, T), decl.reflect_type(world, other),
                                                            "true" if rev else "false", decl.reflect_type(world, T2))
            lines.append(line)
        except (decl.Unreflectable, core.Unencodable):
            lines.append("true")
    body = "Definition checks : list bool := [\n%s\n].\nGoal True. idtac \"MISMATCH\". exact I. Qed.\nEval vm_compute in (bad_idx (fun b : bool => b) checks).\n" % ";\n".join(lines)
    rc, out = core.coq_eval("c09combine_%d" % __import__("os").getpid(), ["Parse", "Combine"], body)
    bad = core.parse_nat_list(out, "MISMATCH") if rc == 0 else None
    if bad is None:
        res.broken.append(dict(kind="correspondence", name="combine (coqc failed)", detail=out[-1500:]))
        bad = []
    res.add_suite("combine", len(cases), len({repr(c) for c in cases}), [cases[0]],
                  "LogicalType.combine / combine_by / __invert__ on random argument lists (with Any, None, duplicates, nested "
                  "same-kind and other-kind combinations), result compared structurally with Model/Combine.v",
                  dict(mismatches=len(bad)))
    if bad:
        res.broken.append(dict(kind="correspondence", name="combine",
                               detail="construction differs on %d cases; first: %r" % (len(bad), cases[bad[0]])))
        res._combine_bad = [cases[i] for i in bad[:5]]


def operator_order_case(i_seed):
    """types written with the Python operators & | ^ over data classes, Rules and plain types (1-2 levels): the leaves of the
    constructed type appear in the written order, and for & the value is what applying the arguments one after the other gives"""
    import operator, typing
    from utype import Schema, DataClass, Rule, Options
    from utype.parser.rule import LogicalType
    from utype.utils.transform import type_transform
    warnings.simplefilter("ignore")
    rng = random.Random(i_seed)
    U = type("OpU", (Schema,), {"__annotations__": {"name": str, "age": int}, "age": 0})
    D = type("OpD", (DataClass,), {"__annotations__": {"a": int}, "a": 0})
    R1 = Rule.annotate(str, constraints=dict(max_length=3))
    R2 = Rule.annotate(dict, str, str)
    R3 = Rule.annotate(int, constraints=dict(ge=0))
    R4 = Rule.annotate(dict, constraints=dict(max_length=2))
    aware = [U, D, R1, R2, R3, R4]
    plain = [int, dict, str, float]
    names = {id(x): n for x, n in zip(aware + plain, ["U", "D", "R1", "R2", "R3", "R4", "int", "dict", "str", "float"])}
    OPS = {"&": operator.and_, "|": operator.or_, "^": operator.xor}

    used = []
    wrong = []

    def sub():
        a = rng.choice([x for x in aware if x not in used])
        used.append(a)
        if rng.random() < 0.5:
            return a, [a]
        b = rng.choice([x for x in aware + plain if x not in used])
        used.append(b)
        o = rng.choice("&|^")
        if rng.random() < 0.5:
            t2, l2 = OPS[o](a, b), [a, b]
        else:
            t2, l2 = OPS[o](b, a), [b, a]    # a plain type or generic on the left: the right operand's reflected operator builds it
        if getattr(t2, "combinator", None) != o:
            wrong.append("%s %s %s was built as %r whose combinator is %r" % (names[id(l2[0])], o, names[id(l2[1])], t2, getattr(t2, "combinator", None)))
        return t2, l2
    try:
        L, ll = sub()
        if rng.random() < 0.3:
            R = rng.choice([x for x in plain if x not in used]); rl = [R]
        else:
            R, rl = sub()
        op = rng.choice("&|^")
        T = OPS[op](L, R)
    except Exception as e:
        return ("skip", type(e).__name__)

    def leaves(t, depth=0):
        if id(t) in names:
            return [names[id(t)]]
        out = []
        if isinstance(t, LogicalType) and depth < 6:
            if getattr(t, "combinator", None):
                for a in t.args:
                    out += leaves(a, depth + 1)
            else:
                o = getattr(t, "__origin__", None)
                if o is not None:
                    out += leaves(o, depth + 1)
        elif typing.get_origin(t) is typing.Union or type(t).__name__ == "UnionType":
            for a in typing.get_args(t):
                out += leaves(a, depth + 1)
        return out
    if wrong:
        return ("order", wrong[0])
    comb = getattr(T, "combinator", None)
    if comb != op:
        return ("order", "written with %s, (%s) %s (%s) was built as %r whose combinator is %r" % (
            op, " ".join(names[id(x)] for x in ll), op, " ".join(names[id(x)] for x in rl), T, comb))
    want = [names[id(x)] for x in ll + rl]
    got = leaves(T)
    if got != want:
        return ("order", "%s written as (%s) %s (%s): the constructed type %r holds its leaves in the order %r, written %r" % (
            "type", " ".join(names[id(x)] for x in ll), op, " ".join(names[id(x)] for x in rl), T, got, want))
    if op == "&" and len(ll) == 1 and len(rl) == 1:
        v = rng.choice([{"name": "x", "age": "3"}, {"name": "x", "age": 3, "extra": 1}, {"a": "1"}, "ab", "abcd", 5, "5", -1, {"k": "v"}, '{"name": "bob"}'])
        def seq():
            x = v
            for a in ll + rl:
                x = type_transform(x, a)
            return x
        try:
            w = ("ok", repr(seq()))
        except Exception:
            w = ("rejected",)
        try:
            g = ("ok", repr(type_transform(v, T)))
        except Exception:
            g = ("rejected",)
        if g != w:
            return ("value", "%s & %s on %r gives %r; applying the arguments in order gives %r" % (want[0], want[1], v, g, w))
    return ("ok", None)


def operator_suite(res, tier, seed):
    n = 2500 if tier == "quick" else 40000
    outs = core.pool_map(operator_order_case, [seed * 1000099 + i for i in range(n)])
    agg, bad = {}, []
    for o in outs:
        if isinstance(o, tuple):
            agg[o[0]] = agg.get(o[0], 0) + 1
            if o[0] in ("order", "value"):
                bad.append(o[1])
    res.add_suite("operator-order", n, n, ["seeded expressions over a Schema, a DataClass, four Rules and int / dict / str / float"],
                  "types written with & | ^ (one or two levels, a data class, a Rule or a plain type on either side): the leaves of the "
                  "constructed type must appear in the written order; for a two-argument & the result on an input must be what "
                  "applying the first argument and then the second gives", dict(failures=len(bad), outcomes=agg))
    for m in bad[:3]:
        res.violations.append(dict(case=repr(dict(kind="operator-order")), observed=m, what=m))


def main(tier, seed):
    warnings.simplefilter("ignore")
    res = core.Result(PID, tier, seed)
    core.prove(res, PID)
    rng = random.Random(seed * 89 + 9)
    n = 3000 if tier == "quick" else 50000
    base = [gen_logic_case(rng) for _ in range(n)]
    cases = []
    for c in base:
        cases.append(c)
        if rng.random() < 0.35:
            cases.extend(permutations_of(c)[:2])
    mism = parsesuite.run_suite(res, cases, "logic") or []
    if core.build(["Model/Combine.vo"])["ok"]:
        combine_suite(res, tier, seed)
    operator_suite(res, tier, seed)
    # the property itself on the implementation
    m = 2500 if tier == "quick" else 30000
    ocases = [gen_logic_case(rng) for _ in range(m)]
    # negation over plain builtin classes, whose converters reject with exceptions of many kinds (OverflowError,
    # decimal.InvalidOperation, ...), alone and as the second argument of a conjunction
    hostile = [float("inf"), float("-inf"), float("nan"), "abc", "1e", 1e300, 10 ** 400, "", None, b"\xff", "inf", "nan", [], {}, "١"]
    for leaf in ("int", "decimal", "float", "posint", "month", "bool", "bytes", "str"):
        for v in hostile:
            for kw in ({}, {"no_explicit_cast": True}, {"collect_errors": True}):
                ocases.append(dict(spec=("not", ("leaf", leaf)), options=dict(kw), value=v))
            ocases.append(dict(spec=("logic", "&", [("leaf", "float"), ("not", ("leaf", leaf))]), options={}, value=v))
            ocases.append(dict(spec=("logic", "&", [("leaf", "str"), ("not", ("leaf", leaf))]), options={}, value=v))
    outs = core.pool_map(oracle, ocases)
    bad = [(c, o) for c, o in zip(ocases, outs) if o is not None and not isinstance(o, tuple)]
    hard = [(c, o) for c, o in zip(ocases, outs) if isinstance(o, tuple)]
    res.add_suite("logic-oracle", len(ocases), len({repr(c) for c in ocases}), [repr(ocases[0])],
                  "two- and three-argument |, ^, & and ~ types over leaves that accept differently (int / digit-regex str / const / "
                  "bounded float ...), every flag combination; each argument is also run alone on the given input and the "
                  "combinator's verdict/value is judged against those; ^ additionally in every argument order",
                  dict(failures=len(bad), incomplete=len(hard)))
    for c, o in bad[:3]:
        res.violations.append(dict(case=repr(c), observed=o, what=o))
    if not bad and mism:
        # the model and the implementation differ: is the property violated on one of those inputs?
        mo = core.pool_map(oracle, [c for c, _ in mism[:400]])
        for (c, _), o in zip(mism[:400], mo):
            if isinstance(o, str):
                res.violations.append(dict(case=repr(c), observed=o, what=o))
                if len(res.violations) >= 3:
                    break
    return core.finish(res, "make -C coq Props/C09.vo && coqc (Print Assumptions audit)", "see suites", search=None,
                       level_note="semantics theorems are about Model/Parse.v logical_parse (tied by the logic suite); the construction "
                                  "algebra is about the hand model Model/Combine.v (tied by the combine suite, structural comparison)")


def replay(path):
    import json
    d = json.loads(open(path).read())
    if "case" not in d:
        print(json.dumps(d, indent=1)[:4000])
        r = core.build(["Props/%s.vo" % PID])
        return 0 if r["ok"] else 1
    c = eval(d["case"], {"Decimal": Decimal, "inf": float("inf"), "nan": float("nan")})
    msg = oracle(c)
    print("case:", c, "\n->", msg or "property holds on this case")
    return 1 if msg else 0
