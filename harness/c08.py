"""C08 — decorated functions get Python's binding with conforming arguments and result."""
import random, inspect, warnings, re
from . import core, decl, dyn, parsesuite, findings

PID = "C08"
TYPES = {"int": int, "str": str, "PositiveInt": None, "List[int]": None, "bool": bool, "Optional[int]": None}
GOOD = {"int": [1, "2", 3.0], "str": ["s", 5], "PositiveInt": [1, "5"], "List[int]": [[1, "2"], []], "bool": [True, "false"],
        "Optional[int]": [None, 4, "6"], None: [1, "q", None], "None": [None]}
BAD = {"int": ["x"], "PositiveInt": [0, "x"], "List[int]": [["x"]], "Optional[int]": ["x"], "None": [1, "x", 0]}
DEFAULTS = {"int": ["0", "7"], "str": ["'x'", "''"], "PositiveInt": ["3"], "List[int]": ["()"], "bool": ["False"], "Optional[int]": ["None"],
            None: ["0", "None"]}


def rand_sig(rng, rich=False):
    """a random signature over the five parameter kinds; returns (source of the parameter list, descriptors)"""
    n_po = rng.choice([0, 0, 1, 2])
    n_pk = rng.choice([0, 1, 2, 3])
    var_pos = rng.random() < 0.35
    n_ko = rng.choice([0, 0, 1, 2])
    var_kw = rng.random() < 0.35
    names = iter("abcdefgh")
    params = []
    seen_default = False
    pool = ["int", "str", None, "int", "PositiveInt", "bool"] + (["List[int]", "Optional[int]"] if rich else [])

    def mk(kind):
        nonlocal seen_default
        nm = next(names)
        if rng.random() < 0.12 and kind in ("po", "pk"):
            nm = "_" + nm
        ann = rng.choice(pool)
        if kind in ("po", "pk"):
            has_def = seen_default or rng.random() < 0.35
            seen_default = seen_default or has_def
        else:
            has_def = rng.random() < 0.5
        return dict(kind=kind, name=nm, ann=ann, default=rng.choice(DEFAULTS[ann]) if has_def else None)
    for _ in range(n_po):
        params.append(mk("po"))
    for _ in range(n_pk):
        params.append(mk("pk"))
    if var_pos:
        params.append(dict(kind="vp", name="args", ann=rng.choice(["int", "int", None, None, "None"]), default=None))
    for _ in range(n_ko):
        params.append(mk("ko"))
    if var_kw:
        params.append(dict(kind="vk", name="kwargs", ann=rng.choice(["int", "int", None, None, "None"]), default=None))
    return params


def sig_src(params):
    parts, po_done = [], False
    has_po = any(p["kind"] == "po" for p in params)
    star = False
    for p in params:
        if p["kind"] != "po" and has_po and not po_done:
            parts.append("/")
            po_done = True
        if p["kind"] == "vp":
            star = True
        if p["kind"] == "ko" and not star:
            parts.append("*")
            star = True
        s = {"vp": "*", "vk": "**"}.get(p["kind"], "") + p["name"]
        if p["ann"]:
            s += ": " + p["ann"]
        if p["default"] is not None:
            s += (" = " if p["ann"] else "=") + p["default"]
        parts.append(s)
    if has_po and not po_done:
        parts.append("/")
    return ", ".join(parts)


def declare(rng, rich=False, wrapper="plain", ret=None):
    for _ in range(30):
        params = rand_sig(rng, rich)
        name = dyn.fresh("fn")
        opts = ", options=Options(collect_errors=True)" if rng.random() < 0.25 else ""
        src = "def %s_raw(%s):\n    return dict(locals())\n%s = utype.parse(%s_raw%s)\n" % (name, sig_src(params), name, name, opts)
        try:
            dyn.declare(src)
        except Exception:
            continue
        return name, src, params
    raise RuntimeError("could not declare a function")


def rand_call(rng, params, allow_bad=True):
    args, kwargs = [], {}
    pos = [p for p in params if p["kind"] in ("po", "pk")]
    vp = next((p for p in params if p["kind"] == "vp"), None)
    npos = rng.randint(0, len(pos) + (2 if rng.random() < 0.3 else 0))

    def val(ann):
        if allow_bad and ann in BAD and rng.random() < 0.12:
            return rng.choice(BAD[ann])
        return rng.choice(GOOD[ann])
    for i in range(npos):
        ann = pos[i]["ann"] if i < len(pos) else (vp["ann"] if vp else None)
        args.append(val(ann))
    if vp is not None and npos >= len(pos) and rng.random() < 0.5:
        for _ in range(rng.randint(1, 3)):
            args.append(rng.choice(BAD[vp["ann"]]) if (allow_bad and vp["ann"] in BAD and rng.random() < 0.3) else rng.choice(GOOD[vp["ann"]]))
    for i, p in enumerate(pos):
        # never the same parameter by position and by keyword; never an excluded one by keyword
        if i >= npos and p["kind"] == "pk" and not p["name"].startswith("_") and rng.random() < 0.6:
            kwargs[p["name"]] = val(p["ann"])
    for p in params:
        if p["kind"] == "ko" and rng.random() < 0.6:
            kwargs[p["name"]] = val(p["ann"])
    if rng.random() < 0.25:
        vk = next((p for p in params if p["kind"] == "vk"), None)
        kwargs[rng.choice(["zz", "extra"])] = val(vk["ann"] if vk else None)
    po_names = [p["name"] for p in params if p["kind"] == "po" and not p["name"].startswith("_")]
    if rng.random() < 0.08 and po_names:
        # a positional-only name as keyword (goes to **kwargs); never an excluded name: those are dropped by design
        vk = next((p for p in params if p["kind"] == "vk"), None)
        kwargs[rng.choice(po_names)] = val(vk["ann"] if vk else None)
    items = list(kwargs.items())
    rng.shuffle(items)
    return args, dict(items)


def run_impl(case):
    from utype.utils import exceptions as exc
    warnings.simplefilter("ignore")
    f = dyn.get(case["fn"])
    try:
        r = f(*case["args"], **case["kwargs"])
    except Exception as e:
        return core.classify_exc(e)
    return ("ok", core.freeze(r))


# ---- reflection of a FunctionParser into Model/Func.v's fsig ----
def reflect_fsig(world, fn):
    p = fn.__parser__ if hasattr(fn, "__parser__") else None
    if p is None:
        raise decl.Unreflectable("no parser")
    p.resolve_forward_refs()
    KIND = {inspect.Parameter.POSITIONAL_ONLY: "KPo", inspect.Parameter.POSITIONAL_OR_KEYWORD: "KPk",
            inspect.Parameter.VAR_POSITIONAL: "KVp", inspect.Parameter.KEYWORD_ONLY: "KKo", inspect.Parameter.VAR_KEYWORD: "KVk"}
    if p.first_reserve or p.addition_type not in (None,) and p.kw_annotation is None:
        pass
    params = []
    for name, prm in p.parameters:
        f = p.get_field(name) if prm.kind not in (prm.VAR_POSITIONAL, prm.VAR_KEYWORD) else None
        if f is not None and (f.name != f.attname or len(f.all_aliases) != 1):
            raise decl.Unreflectable("aliased parameter")
        dflt = "None" if prm.default is prm.empty else "(Some %s)" % world.encoder().val(prm.default)
        params.append("{| fp_name := %s; fp_kind := %s; fp_default := %s; fp_field := %s |}" % (
            core.coq_str(name), KIND[prm.kind], dflt, "None" if f is None else "(Some %s)" % decl.reflect_field(world, f)))
    fields = decl.coq_list(["(%s, %s)" % (core.coq_str(k), decl.reflect_field(world, f)) for k, f in p.fields.items()])
    amap = decl.coq_list(["(%s, %s)" % (core.coq_str(a), core.coq_str(k)) for a, k in p.field_alias_map.items()])
    ci = decl.coq_list([core.coq_str(x) for x in sorted(p.case_insensitive_names)])
    cd = ("{| c_fields := %s; c_alias_map := %s; c_ci_names := %s; c_options := %s; c_dfs := %s; c_exclude_vars := %s; "
          "c_dict_based := false |}" % (fields, amap, ci, reflect_func_options(world, p), decl.coq_bool(bool(p.data_first_search)),
                                        decl.coq_list([core.coq_str(x) for x in sorted(p.exclude_vars)])))
    pos_t = "None" if p.position_type is None else "(Some %s)" % decl.reflect_type(world, p.position_type)
    return "{| fs_params := %s; fs_pos_type := %s; fs_C := %s |}" % (decl.coq_list(params), pos_t, cd)


def reflect_func_options(world, p):
    """the parser's options; a typed **kwargs is Options(addition=<type>): not in the model's options record"""
    o = p.options
    if o.addition not in (None, True, False):
        raise decl.Unreflectable("typed **kwargs")
    return decl.reflect_options(world, o)


PRELUDE = """
Definition fcase := (nat * list pyval * sdata * obs)%type.
Definition run_fcase (k : fcase) : obs :=
  let '(c, args, kwargs, _) := k in
  match SIGS c with
  | Some s => observe (match call_binding (transform RE DD 60) s args kwargs with
                       | Ok b => Ok (PDict (map (fun kv => (PStr (fst kv), snd kv)) b))
                       | Raise e => Raise e | Diverge => Diverge | OutOfFuel => OutOfFuel | Unmodelled => Unmodelled end)
  | None => OSkip
  end.
(* the locals of the body: a mapping compared key by key (order of locals is not an observable) *)
Definition bind_eq (a b : obs) : bool :=
  match a, b with
  | OVal (PDict x), OVal (PDict y) =>
      Nat.eqb (List.length x) (List.length y) &&
      forallb (fun kv => existsb (fun kv' => val_eqb (fst kv) (fst kv') && val_eqb (snd kv) (snd kv')) y) x
  | _, _ => obs_eqb a b
  end.
Definition case_ok (k : fcase) : bool := let '(_, _, _, e) := k in bind_eq (run_fcase k) e.
Definition case_skip (k : fcase) : bool := obs_is_skip (run_fcase k).
"""


def run_suite(res, cases, name, per=200):
    outs = core.pool_map(run_impl, cases)
    world = decl.World()
    sigs, lines, idx, strs = {}, [], [], set()
    unenc = 0
    for i, (c, o) in enumerate(zip(cases, outs)):
        if o[0] == "harness-error":
            res.broken.append(dict(kind="correspondence", name=name + " (harness error)", detail=str(o)[:1500]))
            continue
        try:
            fn = dyn.get(c["fn"])
            if c["fn"] not in sigs:
                sigs[c["fn"]] = (len(sigs), reflect_fsig(world, fn))
            sid = sigs[c["fn"]][0]
            enc = world.encoder()
            args = decl.coq_list([enc.val(a) for a in c["args"]])
            kw = decl.coq_list(["(%s, %s)" % (core.coq_str(k), enc.val(v)) for k, v in c["kwargs"].items()])
            if o[0] == "ok":
                exp = "(OVal (PDict %s))" % decl.coq_list(["(PStr %s, %s)" % (core.coq_str(k), enc.val(v)) for k, v in o[1].items()])
            else:
                exp = core.coq_obs(enc, o)
            lines.append("(%d%%nat, %s, %s, %s)" % (sid, args, kw, exp))
            idx.append(i)
            parsesuite.strings_in([c["args"], c["kwargs"]], strs)
        except (core.Unencodable, decl.Unreflectable):
            unenc += 1
    table = parsesuite.regex_oracle([("[0-9]+", s) for s in strs])
    sig_term = "(fun c : nat => match c with\n%s  | _ => None end)" % "".join(
        "  | %d%%nat => Some (%s)\n" % (i, t) for i, t in sorted(sigs.values()))
    b = core.build(["Model/Func.vo"])
    if not b["ok"]:
        res.broken.append(dict(kind="proof", name=b["failed"], detail=b["log"][-2000:]))
        return []
    import re as _re
    by_id = {i: t for i, t in sigs.values()}

    def sigs_for(chunk):
        """only the signatures (and, through them, the classes) a shard's calls use"""
        ids = sorted({int(_re.match(r"\((\d+)%nat", l).group(1)) for l in chunk})
        term = "(fun c : nat => match c with\n%s  | _ => None end)" % "".join("  | %d%%nat => Some (%s)\n" % (i, by_id[i]) for i in ids)
        return term, [by_id[i] for i in ids]

    def shard(chunk):
        st, sig_texts = sigs_for(chunk)
        body = [_re.sub(r"^\(\d+%nat", "(", l) for l in chunk]      # (the head of a call line is a signature id, not a class id)
        return ("Definition RE := %s.\nDefinition DD : decls := %s.\nDefinition SIGS : nat -> option fsig := %s.\n%s\n"
                "Definition cases : list fcase := [\n%s\n].\n"
                "Goal True. idtac \"MISMATCH\". exact I. Qed.\nEval vm_compute in (bad_idx case_ok cases).\n"
                "Goal True. idtac \"SKIPS\". exact I. Qed.\nEval vm_compute in (count_if case_skip cases).\n"
                % (table, world.decls_term_for(body + sig_texts), st, PRELUDE, ";\n".join(chunk)))
    shards = [shard(lines[s:s + per]) for s in range(0, len(lines), per)]
    mism, skips = [], 0
    for k, (rc, out) in enumerate(core.run_sharded(name, ["Parse", "Func"], shards)):
        bad = core.parse_nat_list(out, "MISMATCH") if rc == 0 else None
        if bad is None:
            res.broken.append(dict(kind="correspondence", name=name + " (coqc failed)", detail=out[-1500:]))
            continue
        skips += core.parse_nat(out, "SKIPS") or 0
        mism.extend(idx[k * per + j] for j in bad)
    kinds = {}
    for o in outs:
        key = o[0] if o[0] != "other" else "other:" + o[1]
        kinds[key] = kinds.get(key, 0) + 1
    res.add_suite(name, len(cases), max(0, len(lines) - skips), [dict(case=repr(cases[0])[:400], impl=repr(outs[0])[:300])],
                  "random signatures over the five parameter kinds (positional-only, positional-or-keyword, *args, keyword-only, "
                  "**kwargs) with annotations, defaults and excluded (underscore-prefixed) parameters; random calls (argument counts "
                  "below, at and above the positional parameters, keywords, unknown keywords, positional-only names as keywords, "
                  "valid / convertible / invalid values); the decorated function returns its locals, compared with call_binding of "
                  "Model/Func.v (parse_params, then the model of Python's binding)",
                  dict(outcome_kinds=kinds, unmodelled_skipped=skips, unencodable=unenc, mismatches=len(mism), signatures=len(sigs)))
    if mism:
        res.broken.append(dict(kind="correspondence", name=name,
                               detail="model and implementation differ on %d calls; first: %r -> impl %r"
                                      % (len(mism), cases[mism[0]], outs[mism[0]])))
    return [(cases[i], outs[i]) for i in mism]


def gen_cases(rng, nsig, per, rich=False):
    cases, srcs = [], {}
    for _ in range(nsig):
        name, src, params = declare(rng, rich)
        srcs[name] = (src, params)
        for _ in range(per):
            args, kwargs = rand_call(rng, params)
            cases.append(dict(fn=name, args=args, kwargs=kwargs))
    return cases, srcs


# ---- the property on the implementation: Python's own binding as the oracle ----
def declare_ctx(rng, rich=True, bare_static=False):
    """a function or a method (instance / class / static), possibly with Param aliases; returns (callable, raw signature
    function, descriptors, source).  bare_static: `@utype.parse` over `@staticmethod` whose first parameter is a bare
    positional-or-keyword one (no annotation, no default): an ordinary parameter, not a `self`"""
    for _ in range(40):
        params = rand_sig(rng, rich)
        ctx = rng.choice(["plain", "plain", "plain", "instance", "class", "static", "static-under"])
        if bare_static:
            ctx = "static-under"
            params = [q for q in params if q["kind"] != "po"]
            first = dict(kind="pk", name="a0", ann=None, default=None)
            params = [first] + params
        name = dyn.fresh("ofn")
        aliases = {}
        plist = sig_src(params)
        if rng.random() < 0.3:
            # an alias on one keyword-capable annotated parameter with a default
            cands = [p for p in params if p["kind"] in ("pk", "ko") and not p["name"].startswith("_") and p["default"] is not None]
            if cands:
                p = rng.choice(cands)
                how = rng.choice(["alias_from", "alias", "ci"])
                al = p["name"] + "_alias" if how != "ci" else p["name"].upper()
                aliases[p["name"]] = al
                old = "%s%s = %s" % (p["name"], ": " + p["ann"] if p["ann"] else "", p["default"]) if p["ann"] else "%s=%s" % (p["name"], p["default"])
                extra = {"alias_from": "alias_from=[%r]" % al, "alias": "alias=%r" % al, "ci": "case_insensitive=True"}[how]
                new = "%s%s = utype.Param(%s, %s)" % (p["name"], ": " + p["ann"] if p["ann"] else "", p["default"], extra)
                if old not in plist:
                    continue
                plist = plist.replace(old, new, 1)
        deps = {}
        if not aliases and rng.random() < 0.2:
            # a keyword-capable parameter that depends on an earlier positional-or-keyword one: the dependency is provided when
            # it is given by keyword or consumed by position (a default does not provide it); checked only when the dependent
            # parameter itself arrives by keyword
            cands = [q for q in params if q["kind"] in ("pk", "ko") and not q["name"].startswith("_") and q["default"] is not None and q["ann"]]
            firsts = [q for q in params if q["kind"] == "pk" and not q["name"].startswith("_")]
            if cands and firsts:
                q = rng.choice(cands)
                others = [f for f in firsts if f["name"] != q["name"]]
                if others:
                    d0 = rng.choice(others)
                    old_s = "%s: %s = %s" % (q["name"], q["ann"], q["default"])
                    if old_s in plist:
                        plist = plist.replace(old_s, "%s: %s = utype.Param(%s, dependencies=[%r])" % (q["name"], q["ann"], q["default"], d0["name"]), 1)
                        deps[q["name"]] = [d0["name"]]
        raw_plist = sig_src(params)
        if ctx == "static":
            firstp = next((p for p in params if p["kind"] in ("po", "pk")), None)
            if firstp is not None and firstp["ann"] is None and firstp["default"] is None:
                continue      # '@staticmethod over @utype.parse' with a bare first parameter is taken for an instance method (documented guess)
        deco_opts = "(options=Options(collect_errors=True))" if rng.random() < 0.3 else ""
        if ctx == "plain":
            src = ("def %s_raw(%s):\n    return dict(locals())\n"
                   "@utype.parse%s\ndef %s(%s):\n    return dict(locals())\n" % (name, raw_plist, deco_opts, name, plist))
        else:
            first = {"instance": "self, ", "class": "cls, ", "static": "", "static-under": ""}[ctx]
            deco = {"instance": "", "class": "    @classmethod\n", "static": "    @staticmethod\n", "static-under": ""}[ctx]
            # "static-under": utype.parse applied on top of @staticmethod (a bare first parameter is an ordinary parameter there)
            inner = "    @utype.parse\n    @staticmethod\n" if ctx == "static-under" else "    @utype.parse\n"
            src = (("def %s_raw(%s):\n    return dict(locals())\n"
                    "class %s_K:\n%s" + inner + "    def m(%s%s):\n        d = dict(locals())\n        d.pop('self', None); d.pop('cls', None)\n        return d\n"
                    "%s = %s_K().m\n") % (name, raw_plist, name, deco, first, plist, name, name))
        try:
            dyn.declare(src)
        except Exception as e:
            # is it Python that refuses the signature, or the decorator?  (the undecorated twin alone)
            try:
                dyn.declare("def %s_probe(%s):\n    pass\n" % (name, raw_plist))
                REFUSED.append((src, "%s: %s" % (type(e).__name__, str(e)[:200])))
            except Exception:
                pass
            continue
        DEPS[name] = deps
        return name, src, params, aliases
    raise RuntimeError("could not declare")


REFUSED = []      # declarations Python accepts and the decorator refused: (source, error)
DEPS = {}         # function name -> {parameter: [parameters it depends on]}


def conv(ann, v):
    import utype
    from utype.utils.transform import type_transform
    if ann is None:
        return v
    if ann == "None":
        if v is None:
            return None
        raise TypeError("not None")
    from utype.parser.rule import Rule
    T = Rule.parse_annotation(annotation=eval(ann, vars(dyn)))
    return type_transform(v, T)


def bind_oracle(case):
    """the decorated call against inspect.Signature.bind on the undecorated twin + per-parameter conversion"""
    from utype.utils import exceptions as exc
    warnings.simplefilter("ignore")
    raw = dyn.get(case["fn"] + "_raw")
    f = dyn.get(case["fn"])
    params = case["params"]
    args, kwargs = case["args"], dict(case["kwargs"])
    # what Python binds for the same call with canonical names
    canon = {}
    inv = {v: k for k, v in case["aliases"].items()}
    for k, v in kwargs.items():
        canon[inv.get(k, k)] = v
    try:
        bound = raw(*args, **canon)          # Python itself binds the undecorated twin (it returns its locals)
    except TypeError:
        return None            # not a call Python would bind: outside the property
    posn = [p["name"] for p in params if p["kind"] in ("po", "pk")]
    given = set(posn[:len(args)]) | {k for k in canon if any(p["name"] == k and p["kind"] in ("pk", "ko") for p in params)}
    expect, fail = {}, False
    by_pos = set(posn[:len(args)])
    for pn, ds in case.get("deps", {}).items():
        if pn in canon and any(d not in canon and d not in by_pos for d in ds):
            fail = True        # given by keyword while a dependency is neither given by keyword nor consumed by position
    for p in params:
        nm, ann = p["name"], p["ann"]
        v = bound[nm]
        try:
            if p["kind"] == "vp":
                v = tuple(conv(ann, x) for x in v)
            elif p["kind"] == "vk":
                v = {k: conv(ann, x) for k, x in v.items()}
            elif nm.startswith("_"):
                pass
            elif nm in given:
                v = conv(ann, v)
        except Exception:
            fail = True
        expect[nm] = v
    try:
        got = ("ok", f(*args, **kwargs))
    except exc.ParseError as e:
        got = ("parse", type(e).__name__)
    except Exception as e:
        got = ("other", type(e).__name__, str(e)[:100])
    if fail:
        return None if got[0] == "parse" else "a parameter cannot be converted but the call gave %r" % (got,)
    if got[0] != "ok":
        return "Python binds this call and every parameter converts, but the decorated call gave %r (expected the body to receive %r)" % (got, expect)
    if got[1] != expect or any(type(got[1][k]) is not type(expect[k]) for k in expect):
        return "the body received %r, Python's binding with converted parameters is %r" % (got[1], expect)
    return None


def gen_oracle_cases(rng, n, per):
    cases = []
    for j in range(n):
        bare = j % 12 == 5
        name, src, params, aliases = declare_ctx(rng, bare_static=bare)
        for i in range(per):
            args, kwargs = rand_call(rng, params)
            if bare and i % 2 == 0 and args:
                # the bare first parameter by keyword
                kwargs = dict(kwargs, a0=args[0])
                rest = [q for q in params if q["kind"] in ("po", "pk")][1:len(args)]
                for q, x in zip(rest, args[1:]):
                    if not q["name"].startswith("_"):
                        kwargs[q["name"]] = x
                args = [] if all(not q["name"].startswith("_") for q in rest) and len(args) <= len(rest) + 1 else args[:1]
                if args:
                    kwargs.pop("a0", None)
            # sometimes use the alias instead of the name
            for k, al in aliases.items():
                if k in kwargs and rng.random() < 0.6:
                    kwargs[al] = kwargs.pop(k)
            cases.append(dict(fn=name, src=src, params=params, aliases=aliases, args=args, kwargs=kwargs, deps=DEPS.get(name, {})))
    return cases


# ---- results and generators ----
RESULT_SRC = '''
def {n}_raw({sig}):
    {body}
{n} = utype.parse({n}_raw{eager})
'''


def result_oracle(i_seed):
    """return value, sync / async generators (lazy and eager): the decorated function's sequence of yielded, sent and returned
    values equals the undecorated one's with each value converted to its declared type"""
    import asyncio, typing
    from utype.utils import exceptions as exc
    from utype.utils.transform import type_transform
    import utype
    warnings.simplefilter("ignore")
    rng = random.Random(i_seed)
    kind = rng.choice(["return", "return", "gen", "gen", "async", "asyncgen"])
    eager = rng.random() < 0.5
    vals = [rng.choice([1, "2", 3.0, "x", True]) for _ in range(rng.randint(1, 4))]
    retv = rng.choice([7, "8", "z", None, 0, False, "", 0.0, "0"])
    yt, rt = rng.choice(["int", "str"]), rng.choice(["int", "str"])
    ns = dict(vars(dyn))
    T = {"int": int, "str": str}

    def cv(t, v):
        return type_transform(v, T[t])
    try:
        if kind == "return":
            src = "def f(v) -> %s:\n    return v\n" % rt
            exec(src, ns); g = utype.parse(ns["f"])
            try:
                want = ("ok", cv(rt, retv))
            except Exception:
                want = ("parse",)
            try:
                got = ("ok", g(retv))
            except exc.ParseError:
                got = ("parse",)
            return None if repr(got) == repr(want) else "%r: return value %r gave %r, expected %r" % (src, retv, got, want)
        if kind == "async":
            src = "async def f(v) -> %s:\n    return v\n" % rt
            exec(src, ns); g = utype.parse(ns["f"], eager=eager)
            try:
                want = ("ok", cv(rt, retv))
            except Exception:
                want = ("parse",)
            try:
                got = ("ok", asyncio.run(g(retv)))
            except exc.ParseError:
                got = ("parse",)
            return None if repr(got) == repr(want) else "%r (eager=%s): awaited result of %r gave %r, expected %r" % (src, eager, retv, got, want)
        if kind == "gen" and rng.random() < 0.5:
            # a generator driven by send(): every sent value (falsy ones included) reaches the body converted
            src = ("import typing\ndef f(n) -> typing.Generator[int, int, str]:\n    got = []\n    for _ in range(n):\n"
                   "        s = yield len(got)\n        got.append(s)\n    return repr(got)\n")
            exec(src, ns); g = utype.parse(ns["f"], eager=eager)
            sends = [rng.choice([0, "0", 5, "7", None, False, 0.0, 3]) for _ in range(rng.randint(1, 4))]
            def drive(fn, conv_send):
                it = fn(len(sends)); out = [next(it)]
                try:
                    for x in sends:
                        out.append(it.send(conv_send(x)) if x is not None else next(it))
                except StopIteration as e:
                    out.append(("ret", e.value))
                return out
            want = drive(ns["f"], lambda x: cv("int", x))
            try:
                got = drive(g, lambda x: x)
            except exc.ParseError:
                got = "parse"
            return None if repr(got) == repr(want) else "%r (eager=%s): sends %r gave %r, the undecorated generator with converted sends gives %r" % (src, eager, sends, got, want)
        if kind == "gen":
            src = ("import typing\ndef f(vs, r) -> typing.Generator[%s, %s, %s]:\n    sent = []\n    for v in vs:\n        s = yield v\n"
                   "        sent.append(s)\n    return r\n" % (yt, "int", rt))
            exec(src, ns); g = utype.parse(ns["f"], eager=eager)
            want_y, want_fail = [], None
            for v in vals:
                try:
                    want_y.append(cv(yt, v))
                except Exception:
                    want_fail = len(want_y)
                    break
            got_y, got_ret, got_fail = [], None, None
            try:
                it = g(vals, retv)
                while True:
                    try:
                        got_y.append(next(it))
                    except StopIteration as e:
                        got_ret = ("ret", e.value)
                        break
            except exc.ParseError:
                got_fail = len(got_y)
            if want_fail is not None:
                return None if (got_fail == want_fail and got_y == want_y) else \
                    "%r (eager=%s): yields %r: expected a ParseError at yield %d after %r, got %r / fail at %r" % (src, eager, vals, want_fail, want_y, got_y, got_fail)
            if got_y != want_y or any(type(a) is not type(b) for a, b in zip(got_y, want_y)):
                return "%r (eager=%s): yielded %r, expected %r" % (src, eager, got_y, want_y)
            try:
                want_r = ("ret", cv(rt, retv) if retv is not None else None)
            except Exception:
                want_r = "parse"
            got_r = got_ret if got_fail is None else "parse"
            return None if repr(got_r) == repr(want_r) else "%r (eager=%s): generator return %r gave %r, expected %r" % (src, eager, retv, got_r, want_r)
        if kind == "asyncgen" and rng.random() < 0.5:
            # an async generator driven by asend(): the value it yields in answer to a sent value is part of the transcript
            src = ("import typing\nasync def f(n) -> typing.AsyncGenerator[int, int]:\n    for i in range(n):\n        s = yield i * 10\n"
                   "        if s is not None:\n            yield 1000 + s\n")
            exec(src, ns); g = utype.parse(ns["f"], eager=eager)
            sends = [rng.choice([0, "0", 5, "7", None, False, 3]) for _ in range(rng.randint(1, 4))]

            async def drive(fn, conv_send):
                it = fn(len(sends)); out = []
                try:
                    out.append(await it.__anext__())
                    for x in sends:
                        out.append(await it.asend(conv_send(x)) if x is not None else await it.__anext__())
                        if x is not None:
                            out.append(await it.__anext__())
                except StopAsyncIteration:
                    out.append("stop")
                return out
            want = asyncio.run(drive(ns["f"], lambda x: cv("int", x)))
            try:
                got = asyncio.run(drive(g, lambda x: x))
            except exc.ParseError:
                got = "parse"
            return None if repr(got) == repr(want) else "%r (eager=%s): asends %r gave %r, the undecorated async generator with converted sends gives %r" % (src, eager, sends, got, want)
        if kind == "asyncgen":
            src = ("import typing\nasync def f(vs) -> typing.AsyncGenerator[%s, None]:\n    for v in vs:\n        yield v\n" % yt)
            exec(src, ns); g = utype.parse(ns["f"], eager=eager)
            want_y, want_fail = [], None
            for v in vals:
                try:
                    want_y.append(cv(yt, v))
                except Exception:
                    want_fail = len(want_y)
                    break

            async def drive():
                out = []
                try:
                    async for x in g(vals):
                        out.append(x)
                except exc.ParseError:
                    return out, len(out)
                return out, None
            got_y, got_fail = asyncio.run(drive())
            ok = got_y == want_y and got_fail == want_fail and all(type(a) is type(b) for a, b in zip(got_y, want_y))
            return None if ok else "%r (eager=%s): async yields %r gave %r (fail at %r), expected %r (fail at %r)" % (
                src, eager, vals, got_y, got_fail, want_y, want_fail)
    except Exception as e:
        return "harness: %s: %r" % (kind, e)
    return None


# ---- the model of Python's binding against inspect.Signature.bind ----
def pybind_suite(res, rng, n):
    from . import decl
    world = decl.World()
    lines, sigs = [], {}
    cases = []
    for _ in range(n // 8):
        name, src, params = declare(rng)
        raw = dyn.get(name + "_raw")
        for _ in range(8):
            args = [rng.choice([1, "q", None]) for _ in range(rng.randint(0, 5))]
            names = [p["name"] for p in params if p["kind"] not in ("vp", "vk")]
            kwargs = {k: rng.choice([2, "w"]) for k in names if rng.random() < 0.4}
            if rng.random() < 0.3:
                kwargs["zz"] = 9
            try:
                exp = raw(*args, **kwargs)       # the undecorated function returns its locals
            except TypeError:
                exp = None
            cases.append((name, args, kwargs, exp))
    for name, args, kwargs, exp in cases:
        try:
            fn = dyn.get(name)
            if name not in sigs:
                sigs[name] = (len(sigs), reflect_fsig(world, fn))
            enc = world.encoder()
            a = decl.coq_list([enc.val(x) for x in args])
            kw = decl.coq_list(["(%s, %s)" % (core.coq_str(k), enc.val(v)) for k, v in kwargs.items()])
            if exp is None:
                e = "None"
            else:
                def bv(v):
                    if isinstance(v, tuple):
                        return "(PTuple %s)" % decl.coq_list([enc.val(x) for x in v])
                    if isinstance(v, dict):
                        return "(PDict %s)" % decl.coq_list(["(PStr %s, %s)" % (core.coq_str(k), enc.val(x)) for k, x in v.items()])
                    return enc.val(v)
                e = "(Some %s)" % decl.coq_list(["(%s, %s)" % (core.coq_str(k), bv(v)) for k, v in exp.items()])
            lines.append("(%d%%nat, %s, %s, %s)" % (sigs[name][0], a, kw, e))
        except (core.Unencodable, decl.Unreflectable):
            pass
    sig_term = "(fun c : nat => match c with\n%s  | _ => None end)" % "".join(
        "  | %d%%nat => Some (%s)\n" % (i, t) for i, t in sorted(sigs.values()))
    body = ("Definition DD : decls := %s.\nDefinition SIGS : nat -> option fsig := %s.\n"
            "Definition sd_eq (a b : sdata) : bool := Nat.eqb (List.length a) (List.length b) && "
            "forallb (fun kv => match assoc (fst kv) b with Some w => val_eqb (snd kv) w | None => false end) a.\n"
            "Definition bcase := (nat * list pyval * sdata * option sdata)%%type.\n"
            "Definition bok (k : bcase) : bool := let '(c, a, kw, e) := k in match SIGS c with None => true | Some s => "
            "match py_bind s a kw, e with Some x, Some y => sd_eq x y | None, None => true | _, _ => false end end.\n"
            "Definition cases : list bcase := [\n%s\n].\nGoal True. idtac \"MISMATCH\". exact I. Qed.\n"
            "Eval vm_compute in (bad_idx bok cases).\n" % (world.decls_term(), sig_term, ";\n".join(lines)))
    rc, out = core.coq_eval("c08pybind_%d" % __import__("os").getpid(), ["Parse", "Func"], body)
    bad = core.parse_nat_list(out, "MISMATCH") if rc == 0 else None
    if bad is None:
        res.broken.append(dict(kind="correspondence", name="py_bind (coqc failed)", detail=out[-1500:]))
        bad = []
    res.add_suite("python-binding", len(lines), len(set(lines)), [lines[0] if lines else ""],
                  "py_bind of Model/Func.v against CPython's own binding of the undecorated functions (which return their locals): random "
                  "argument counts and keyword sets, including calls Python rejects", dict(mismatches=len(bad)))
    if bad:
        res.broken.append(dict(kind="correspondence", name="py_bind",
                               detail="the model of Python's binding differs from CPython on %d calls; first: %s" % (len(bad), lines[bad[0]])))


def main(tier, seed):
    warnings.simplefilter("ignore")
    res = core.Result(PID, tier, seed)
    core.prove(res, PID)
    rng = random.Random(seed * 149 + 8)
    nsig, per = (160, 10) if tier == "quick" else (2000, 16)
    cases, srcs = gen_cases(rng, nsig, per)
    mism = run_suite(res, cases, "calls") or []
    if core.build(["Model/Func.vo"])["ok"]:
        pybind_suite(res, rng, 800 if tier == "quick" else 8000)
    ocases = gen_oracle_cases(rng, 200 if tier == "quick" else 2500, 10)
    outs = core.pool_map(bind_oracle, ocases)
    bad = [(c, o) for c, o in zip(ocases, outs) if isinstance(o, str)]
    bound = sum(1 for o in outs if o is None)
    ctxs = {}
    for c in ocases:
        k = "method" if "_K" in c["src"] else "function"
        ctxs[k] = ctxs.get(k, 0) + 1
    res.add_suite("signature-bind-oracle", len(ocases), len({repr((c["src"], c["args"], c["kwargs"])) for c in ocases}),
                  [dict(src=ocases[0]["src"], args=repr(ocases[0]["args"]), kwargs=repr(ocases[0]["kwargs"]))],
                  "functions and instance / class / static methods over the five parameter kinds, annotations (scalar, constrained, "
                  "List, Optional), defaults, excluded parameters, Param alias_from; for every call that Python binds "
                  "on the undecorated twin, the decorated function's locals must equal Python's binding with each given "
                  "annotated parameter converted alone and omitted ones at their defaults; an unconvertible parameter must give a "
                  "ParseError", dict(failures=len(bad), contexts=ctxs, with_alias=sum(1 for c in ocases if c["aliases"])))
    for c, o in bad[:3]:
        res.violations.append(dict(case=repr(dict(src=c["src"], fn=c["fn"], params=c["params"], aliases=c["aliases"], args=c["args"],
                                                    kwargs=c["kwargs"], kind="bind")), observed=o, what=o))
    # a signature Python itself accepts must be decoratable: otherwise no call of it gets Python's binding
    res.cov["suites"]["signature-bind-oracle"]["signatures_refused_by_the_decorator"] = len(REFUSED)
    for src, err in REFUSED[:2]:
        res.violations.append(dict(case=repr(dict(src=src, kind="decoration-refused")), observed=err,
                                   what="the decorator refuses a signature that Python accepts: " + err))
    m = 600 if tier == "quick" else 8000
    routs = core.pool_map(result_oracle, [seed * 100003 + i for i in range(m)])
    rbad = [o for o in routs if isinstance(o, str)]
    res.add_suite("results-and-generators", m, m, ["seeded: return / coroutine / generator / async generator, lazy and eager"],
                  "return annotation, coroutine result, generator (yield, send, return) and async generator annotations, eager and lazy "
                  "wrappers: the sequence of yielded / returned values equals the undecorated function's with each value converted to "
                  "its declared type, and the first unconvertible value raises ParseError at its own position",
                  dict(failures=len(rbad)))
    for o in rbad[:2]:
        res.violations.append(dict(case=repr(dict(kind="result")), observed=o, what=o))
    if not res.violations and mism:
        for c, o in mism[:3]:
            res.violations.append(dict(case=repr(dict(src=srcs[c["fn"]][0], fn=c["fn"], args=c["args"], kwargs=c["kwargs"], kind="call")),
                                       observed=repr(o)[:600], what="the decorated call departs from Model/Func.v (parse_params + Python's binding)"))
    return core.finish(res, "make -C coq Props/C08.vo && coqc (Print Assumptions audit)", "see suites", search=None,
                       level_note="partial: the theorems cover the index map of the positional part, positional-only defaults, failure of a "
                                  "parameter, and the call outcome in terms of the pure mirror of parse_params + the model of Python's "
                                  "binding (Model/Func.v, tied by the calls and python-binding suites); that the resulting binding equals "
                                  "Python's binding of the original call with converted parameters, Param aliases, methods, return values "
                                  "and generators are decided by the oracle suites on the implementation (inspect.Signature.bind as the "
                                  "oracle); typed **kwargs, Param dependencies and calls giving one parameter twice are not modelled")


def replay(path):
    import json
    d = json.loads(open(path).read())
    if "case" not in d:
        print(json.dumps(d, indent=1)[:4000])
        r = core.build(["Props/%s.vo" % PID])
        return 0 if r["ok"] else 1
    c = eval(d["case"], {"inf": float("inf"), "nan": float("nan")})
    if c.get("kind") == "bind":
        dyn.declare(c["src"])
        msg = bind_oracle(c)
        print("source:\n" + c["src"], "\ncall:", c["args"], c["kwargs"], "\n->", msg or "property holds on this case")
        return 1 if msg else 0
    if c.get("kind") == "call":
        dyn.declare(c["src"])
        res = core.Result(PID, "quick", 0)
        m = run_suite(res, [dict(fn=c["fn"], args=c["args"], kwargs=c["kwargs"])], "replay")
        print("source:\n" + c["src"], "\ncall:", c["args"], c["kwargs"], "\n->", "differs from the model" if m else "agrees with the model")
        return 1 if m else 0
    print(d.get("observed"))
    return 1
