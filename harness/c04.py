"""C04 — invalid input raises ParseError and nothing else; parsing always terminates."""
import random, warnings, itertools
from decimal import Decimal
from . import core, decl, gen, parsesuite, findings, dc, dyn

PID = "C04"


class Opaque:
    pass


def srepr(x, n=2000):
    try:
        return repr(x)[:n]
    except ValueError:
        return "<value containing an int beyond the 4300-digit text limit>"
    except RecursionError:
        return "<a list nested 3000 levels deep: c04.deep_value()>"


BRACKETED = ["[1 2]", "{a b}", "(1 2)", "[1,,2]", "{1: }", "{'a' 1}", "[1; 2]", "{1, 2:}", "[a b]", "(,)", "[1 2", "{\"a\" \"b\"}",
             "[[1] [2]]", "{1 2}", "(1,, 2)", "[*]", "{**}", "[1 if]", "[lambda]", "{'a': 1 'b': 2}"]
_DEEP = []


def deep_value():
    """a container nested far beyond the interpreter's recursion limit (built once)"""
    if not _DEEP:
        v = []
        for _ in range(3000):
            v = [v]
        _DEEP.append(v)
    return _DEEP[0]


def hostile_value(rng, depth=2):
    k = rng.random()
    if k < 0.05:
        # text that opens and closes like a list / dict / tuple literal but is neither JSON nor a Python literal
        return rng.choice(BRACKETED)
    if k < 0.06 and depth == 2:
        return deep_value()
    if k < 0.30:
        return rng.choice([float("inf"), float("-inf"), float("nan"), "inf", "-inf", "nan", "Infinity", "-Infinity", "NaN",
                           Decimal("Infinity"), Decimal("-Infinity"), Decimal("NaN"), Decimal("sNaN"), 10 ** 400, -10 ** 400, 10 ** 5000,
                           1e308, 5e-324, "1e400", "-1e400", "1e-400", 2 ** 63, -2 ** 63, "", " ", "\x00", "0x10", "1_000",
                           b"\xff\xfe", b"\x80abc", bytearray(b"ab"), memoryview(b"ab"), complex(1, 2), 1j,
                           "9" * 400, "[1, 2", "{", "}", "(", "a=b&c", "a=1;b", "[]", "{}", "()", "None", "null",
                           True, False, None, 0, -0.0, "٣", "１２", "\n12\n", "1e5", "+5", "--5", ".", "e5"])
    if k < 0.40:
        return rng.choice([Opaque(), Opaque, object(), int, type(None), len, lambda x: x, iter([1, 2]), (x for x in [1]),
                           range(3), Ellipsis, NotImplemented, slice(1, 2)])   # finite iterators only: an endless iterator is not a finite input
    if k < 0.50:
        d = {}
        d["self"] = d
        l = []
        l.append(l)
        return rng.choice([d, l])
    if depth <= 0:
        return gen.scalar(rng)
    if k < 0.62:
        return [hostile_value(rng, depth - 1) for _ in range(rng.randint(0, 3))]
    if k < 0.68:
        return tuple(hostile_value(rng, depth - 1) for _ in range(rng.randint(0, 3)))
    if k < 0.74:
        try:
            return set(hostile_value(rng, 0) for _ in range(rng.randint(0, 3)))
        except TypeError:
            return set()
    if k < 0.84:
        out = {}
        for _ in range(rng.randint(0, 3)):
            try:
                out[rng.choice(["a", "b", 1, 2.5, None, True, (1, 2), b"k", ""])] = hostile_value(rng, depth - 1)
            except TypeError:
                pass
        return out
    v = None
    for _ in range(rng.randint(5, 60)):
        v = [v] if rng.random() < 0.5 else {"a": v}
    return v


EXTRA_TYPES = None


def extra_types():
    """targets outside the Coq model (dates, uuid, enum ...): judged by the oracle only"""
    global EXTRA_TYPES
    if EXTRA_TYPES is None:
        from utype import Rule
        from utype.parser.rule import LogicalType
        import datetime, uuid, enum
        from typing import List, Dict

        class Color(enum.Enum):
            R = 1
            G = "g"
        names = [datetime.datetime, datetime.date, datetime.time, datetime.timedelta, uuid.UUID, Color, bytes, complex]
        EXTRA_TYPES = [Rule.annotate(t) for t in names] + \
            [Rule.annotate(list, Rule.annotate(t)) for t in names[:5]] + \
            [LogicalType.combine("|", Rule.annotate(datetime.datetime), int), LogicalType.combine("^", Rule.annotate(datetime.date), Rule.annotate(str)),
             Rule.annotate(dict, Rule.annotate(datetime.date), Rule.annotate(Decimal))]
        # constrained numbers called directly: every validator meets every non-finite / huge spelling
        global N_PLAIN_EXTRA
        N_PLAIN_EXTRA = len(EXTRA_TYPES)
        for t in (Decimal, float, int):
            for cons in ({"ge": 0}, {"lt": 10}, {"gt": -1, "le": 100}, {"multiple_of": 0.5}, {"multiple_of": 3}, {"max_digits": 5},
                         {"decimal_places": 2}, {"ge": Decimal("0.5")}, {"const": 1}, {"enum": [1, 2]}):
                try:
                    EXTRA_TYPES.append(Rule.annotate(t, constraints=dict(cons)))
                except Exception:
                    pass
    return EXTRA_TYPES


N_PLAIN_EXTRA = 0
NUMERIC_HOSTILE = [float("inf"), float("-inf"), float("nan"), "inf", "-inf", "nan", "NaN", "-nan", "sNaN", "Infinity", b"nan", b"inf",
                   Decimal("Infinity"), Decimal("-Infinity"), Decimal("NaN"), Decimal("sNaN"), Decimal("-NaN"), 10 ** 400, -10 ** 400,
                   "1" + "0" * 400, "1e400", "-1e400", "1e-400", 1e308, -1e308, 5e-324, [float("nan")], [Decimal("Infinity")], ["nan"],
                   (10 ** 400,), 2 ** 63, True, None, "", "1_0", "１２"]


def gen_case(rng, classes):
    k = rng.random()
    opts = decl.rand_options(rng)
    if k < 0.55:
        return dict(kind="type", spec=decl.rand_spec(rng, rng.choice([0, 1, 2, 3])), options=opts, value=hostile_value(rng))
    if k < 0.75:
        n_all = len(extra_types())
        if rng.random() < 0.45 and n_all > N_PLAIN_EXTRA:
            return dict(kind="extra", idx=rng.randrange(N_PLAIN_EXTRA, n_all), options=opts,
                        value=rng.choice(NUMERIC_HOSTILE) if rng.random() < 0.75 else hostile_value(rng))
        return dict(kind="extra", idx=rng.randrange(N_PLAIN_EXTRA or n_all), options=opts,
                    value=rng.choice(NUMERIC_HOSTILE) if rng.random() < 0.2 else hostile_value(rng))
    name = rng.choice(classes)
    data = hostile_value(rng)
    if rng.random() < 0.6:
        data = {rng.choice(["v", "link", "x", "V"]): hostile_value(rng) for _ in range(rng.randint(0, 3))}
    return dict(kind="data", cls=name, options=None, value=data)


_CLASSES = []


def case_of(cseed):
    return gen_case(random.Random(cseed), _CLASSES)


def run_impl(cseed):
    case = case_of(cseed)
    import utype
    from utype.utils.transform import type_transform
    from utype.parser.rule import LogicalType
    from utype.utils import exceptions as exc
    warnings.simplefilter("ignore")
    try:
        if case["kind"] == "type":
            T = parsesuite.build(case["spec"])
            if not isinstance(T, LogicalType):
                return ("not-an-entry-point",)
        elif case["kind"] == "extra":
            T = extra_types()[case["idx"]]
        else:
            T = dyn.get(case["cls"])
        o = utype.Options(**case["options"]) if case["options"] else None
    except Exception as e:
        return ("config-error", type(e).__name__)
    try:
        if case["kind"] == "data":
            v = case["value"]
            if isinstance(v, dict) and not all(isinstance(k, str) for k in v):
                return ("out-of-scope",)       # non-string keys at the top level (no cast_keyword_str)
            T.__from__(v)
        else:
            T(case["value"], context=o.make_context()) if o else T(case["value"])
        return ("ok",)
    except exc.ParseError:
        return ("parse",)
    except RecursionError:
        return ("recursion",)
    except Exception as e:
        import traceback
        tb = traceback.extract_tb(e.__traceback__)
        site = ""
        for fr in reversed(tb):
            if "/utype/" in fr.filename:
                site = "%s:%d %s" % (fr.filename.split("utype/")[-1], fr.lineno, fr.name)
                break
        if isinstance(e, TypeError) and "keywords must be strings" in str(e):
            return ("out-of-scope",)       # a mapping with non-string keys reached cls.__init__( **data) at the top level
        return ("other", type(e).__name__, site, str(e)[:60])


def entry_case(i_seed):
    """the other entry points: data classes that cast top-level keys (cast_keyword_str) under every strictness, and parsed
    functions with fixed, *args and **kwargs parameters: only ParseError leaves, and the body of a function is entered only with
    values of the declared types"""
    import utype
    from utype.utils import exceptions as exc
    warnings.simplefilter("ignore")
    rng = random.Random(i_seed)
    t = dyn.fresh("Ep")
    okw = {}
    if rng.random() < 0.4: okw["collect_errors"] = True
    if rng.random() < 0.2: okw["max_errors"] = rng.choice([1, 2])
    if rng.random() < 0.3: okw["no_data_loss"] = True
    if rng.random() < 0.3: okw["no_explicit_cast"] = True
    kind = rng.choice(["cls", "fn", "fn"])

    class BadStr:
        def __str__(self):
            raise RuntimeError("no text")
        __hash__ = object.__hash__
    if kind == "cls":
        okw["cast_keyword_str"] = True
        if rng.random() < 0.3: okw["addition"] = rng.choice([True, False])
        seen = []
        dyn._S[t] = seen
        req = rng.random() < 0.5
        src = ("class %s(%s):\n    __options__ = Options(%s)\n    v: int%s\n    w: str = ''\n"
               "    def __validate__(self):\n        _S[%r].append((self.v, self.w))\n") % (
            t, rng.choice(["Schema", "DataClass"]), ", ".join("%s=%r" % kv for kv in okw.items()), "" if req else " = 0", t)
        dyn.declare(src)
        K = dyn.get(t)
        keys = ["v", "w", 1, 2.5, None, True, (1, 2), b"k", b"\xff", "", BadStr(), frozenset([1])]
        data = {}
        for _ in range(rng.randint(1, 3)):
            try:
                data[rng.choice(keys)] = hostile_value(rng, 1)
            except TypeError:
                pass
        if rng.random() < 0.4:
            data["v"] = rng.choice(["abc", None, [], 5, "7"])
        how = rng.choice(["from", "init"]) if all(isinstance(k, str) and k.isidentifier() for k in data) else "from"
        try:
            r = K.__from__(data) if how == "from" else K(**data)
            out = "ok"
        except exc.ParseError:
            out = "parse"
        except RecursionError:
            return ("recursion", kind)
        except Exception as e:
            return "%s\n%s(%s) let %s escape: %s" % (src, how, srepr(data, 300), type(e).__name__, str(e)[:100])
        for v, w in seen:
            if not (isinstance(v, int) and isinstance(w, str)):
                return "%s\n%s(%s): __validate__ ran on (v=%r, w=%r), which are not the declared types" % (src, how, srepr(data, 300), v, w)
        if out == "ok":
            try:
                vv, ww = (r["v"], r["w"]) if isinstance(r, dict) else (r.v, r.w)
            except (KeyError, AttributeError):
                return "%s\n%s(%s) returned an instance without its fields (%r): an input that cannot be parsed was accepted" % (src, how, srepr(data, 300), r)
            if not (isinstance(vv, int) and isinstance(ww, str)):
                return "%s\n%s(%s) returned (v=%r, w=%r), which are not the declared types" % (src, how, srepr(data, 300), vv, ww)
        return (out, kind)
    seen = []
    dyn._S[t] = seen
    gen = rng.random() < 0.25
    src = ("@utype.parse(options=Options(%s))\ndef %s(a: int, b: str = 'x', *rest: int, **more: float):\n    _S[%r].append((a, b, rest, more))\n    %s\n"
           % (", ".join("%s=%r" % kv for kv in okw.items()), t, t, "yield 1" if gen else "return 1"))
    dyn.declare(src)
    f = dyn.get(t)
    args = [hostile_value(rng, 1) if rng.random() < 0.5 else rng.choice([1, "2", 3.0]) for _ in range(rng.randint(1, 5))]
    kwargs = {}
    for j in range(rng.randint(0, 2)):
        kwargs["k%d" % j] = hostile_value(rng, 1) if rng.random() < 0.5 else rng.choice([1.5, "2", 3])
    try:
        r = f(*args, **kwargs)
        if gen:
            list(r)
        out = "ok"
    except exc.ParseError:
        out = "parse"
    except RecursionError:
        out = "recursion"
    except Exception as e:
        return "%s\ncall(*%s, **%s) let %s escape: %s" % (src, srepr(args, 300), srepr(kwargs, 200), type(e).__name__, str(e)[:100])
    for a, b, rest, more in seen:
        okv = isinstance(a, int) and isinstance(b, str) and all(isinstance(x, int) for x in rest) and all(isinstance(x, float) for x in more.values())
        if not okv:
            return "%s\ncall(*%s, **%s): the body was entered with (a=%r, b=%r, rest=%r, more=%r), which are not the declared types" % (
                src, srepr(args, 300), srepr(kwargs, 200), a, b, rest, more)
    return (out, kind)


def entry_suite(res, tier, seed):
    n = 3000 if tier == "quick" else 50000
    outs = core.pool_map(entry_case, [seed * 1000171 + i for i in range(n)])
    bad = [o for o in outs if isinstance(o, str)]
    agg = {}
    for o in outs:
        if isinstance(o, tuple) and len(o) == 2:
            agg["%s/%s" % (o[1], o[0])] = agg.get("%s/%s" % (o[1], o[0]), 0) + 1
        elif isinstance(o, tuple):
            agg[o[0]] = agg.get(o[0], 0) + 1
    res.add_suite("entry-points", n, n, ["seeded: key-casting data classes; parsed functions (a: int, b: str, *rest: int, **more: float), plain and generator"],
                  "data classes with cast_keyword_str under every strictness given mappings with non-text keys (numbers, None, tuples, "
                  "undecodable bytes, objects whose __str__ raises); parsed functions and generator functions with fixed, *args and "
                  "**kwargs parameters under collect_errors / max_errors / strictness, hostile positional and keyword values: only "
                  "ParseError leaves, and the body is entered only with values of the declared types",
                  dict(failures=len(bad), outcomes=agg))
    for o in bad[:3]:
        res.violations.append(dict(case=repr(dict(kind="entry-point")), observed=o, what=o))


def unhashable_finding():
    from utype import Rule
    from typing import List
    T = Rule.annotate(set, List[int])
    try:
        T({(1, 2)})
    except Exception as e:
        from utype.utils import exceptions as exc
        return not isinstance(e, exc.ParseError)
    return False


def int_str_limit_finding():
    from utype import Rule
    from utype.utils import exceptions as exc
    try:
        Rule.annotate(dict, int, int)({10 ** 5000: 1})
    except exc.ParseError:
        return False
    except ValueError:
        return True
    return False


def huge_exponent_finding():
    """int('1e99999999') does not return in practice: run under the watchdog"""
    def probe(_):
        from utype import Rule
        class I(int, Rule):
            pass
        try:
            I("1e99999999")
        except Exception:
            pass
        return ("returned",)
    r = core.pool_map(probe, [0], soft=3.0, hard=8.0, nproc=1)
    return r[0][0] == "timeout"


def is_unhashable_case(case, out):
    return out[0] == "other" and out[1] == "TypeError" and ("rule.py" in out[2]) and \
        ("parse" in out[2] and ("_parse_map_args" in out[2] or " parse" in out[2]))


def main(tier, seed):
    warnings.simplefilter("ignore")
    res = core.Result(PID, tier, seed)
    core.prove(res, PID)
    rng = random.Random(seed * 61 + 4)
    # correspondence on the modelled universe
    n = 4000 if tier == "quick" else 60000
    cases = [parsesuite.gen_case(rng) if i % 3 else parsesuite.gen_union_case(rng) for i in range(n)]
    parsesuite.run_suite(res, cases, "parse")
    # hostile inputs on every entry point, judged by the property itself
    classes = []
    for kind in ["list", "optional", "dict", "union"]:
        for d in [None, 2]:
            cls, _ = dc.node_class(kind, d, rng.choice(["Schema", "DataClass"]))
            classes.append(cls.__name__)
    m = 8000 if tier == "quick" else 150000
    _CLASSES[:] = classes
    extra_types()
    seeds = [seed * 1000003 + 7919 * i + 11 for i in range(m)]
    outs = core.pool_map(run_impl, seeds, soft=2.0, hard=15.0)
    hcases = [case_of(cs) for cs in seeds]
    kinds = {}
    bad = []
    known_hits = {}
    for c, o in zip(hcases, outs):
        kinds[o[0] if o[0] != "other" else "other:%s" % o[1]] = kinds.get(o[0] if o[0] != "other" else "other:%s" % o[1], 0) + 1
        if o[0] in ("other", "timeout", "recursion", "harness-error"):
            if o[0] == "other" and o[1] == "TypeError" and "unhashable" in repr(c) + "":
                pass
            if o[0] == "other" and o[1] == "TypeError" and o[2].startswith("parser/rule.py") and \
                    c["kind"] == "type" and findings.spec_has(c["spec"], lambda s: isinstance(s, tuple) and s and s[0] in ("set", "setc", "dict")):
                known_hits["C04-unhashable"] = known_hits.get("C04-unhashable", 0) + 1
                continue
            if o[0] == "other" and o[1] == "ValueError" and "Exceeds the limit" in o[3]:
                known_hits["C04-int-str-limit"] = known_hits.get("C04-int-str-limit", 0) + 1
                continue
            if o[0] == "recursion":
                known_hits["C04-recursion"] = known_hits.get("C04-recursion", 0) + 1
                continue
            bad.append((c, o))
    res.add_suite("hostile", len(hcases), len({srepr((c.get("spec"), c.get("idx"), c.get("cls"))) + srepr(c["value"], 200) for c in hcases}),
                  [dict(case=srepr(hcases[0], 400), outcome=repr(outs[0]))],
                  "hostile inputs (inf/nan in every spelling, huge numbers, undecodable bytes, objects, classes, iterators, cyclic and "
                  "deeply nested containers) on random constrained/logical types, date/uuid/enum targets and recursive data classes; "
                  "each call under a 2 s CPU watchdog; outcome must be a value or a ParseError",
                  dict(outcome_kinds=kinds, failures_inside_known_findings=known_hits))
    for c, o in bad[:3]:
        res.violations.append(dict(case=srepr(c), case_seed=seeds[hcases.index(c)], observed=repr(o),
                                   what="a non-ParseError exception or a hang escaped: %r" % (o,)))
    findings.replay_all(res, PID, {"C04-unhashable": unhashable_finding, "C04-huge-exponent": huge_exponent_finding,
                                    "C04-int-str-limit": int_str_limit_finding})
    entry_suite(res, tier, seed)
    return core.finish(res, "make -C coq Props/C04.vo && coqc (Print Assumptions audit)", "see suites", search=None,
                       level_note="partial: the theorems cover the exception class for every declaration inside wf_ty (no_preserve options) "
                                  "and every data-class declaration; termination is a theorem only for the timestamp loop - resource "
                                  "exhaustion (huge exponents), C-level recursion limits and the unmodelled converters (dates, uuid, enum) "
                                  "are judged by the hostile suite under a watchdog")


def replay(path):
    import json
    d = json.loads(open(path).read())
    print(json.dumps(d, indent=1)[:4000])
    if "case" not in d:
        r = core.build(["Props/%s.vo" % PID])
        return 0 if r["ok"] else 1
    print("(hostile cases contain live objects and are regenerated from VERIF_SEED: rerun ./check C04 with the same seed)")
    return 1
