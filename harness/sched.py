"""A deterministic line-level thread scheduler for CPython code (C20).

Worker threads run under sys.settrace; every 'line' event inside one of the target code objects is a yield point where
the thread hands control back to the scheduler, so exactly one worker runs at a time and the interleaving is decided by
the schedule alone.  A worker that blocks on a real lock never reaches its next yield point: after a short wait the
scheduler marks it blocked and lets another worker run; it rejoins when it arrives."""
import sys, threading, time


class Run:
    def __init__(self, targets, thunks, choose, block_wait=0.05, max_steps=4000, on_event=None):
        self.targets = targets                  # set of code objects
        self.thunks = thunks
        self.choose = choose                    # f(step, current, enabled) -> tid
        self.n = len(thunks)
        self.cv = threading.Condition()
        self.state = ["new"] * self.n           # new / waiting / running / blocked / done
        self.go = [False] * self.n
        self.where = [None] * self.n
        self.results = [None] * self.n
        self.trace = []                         # (tid, funcname, lineno)
        self.block_wait = block_wait
        self.max_steps = max_steps
        self.on_event = on_event
        self.events = []                        # (tid, label) emitted by on_event

    def _yield(self, tid, where):
        with self.cv:
            self.where[tid] = where
            self.state[tid] = "waiting"
            self.cv.notify_all()
            while not self.go[tid]:
                self.cv.wait()
            self.go[tid] = False
            self.state[tid] = "running"

    def _worker(self, tid):
        targets = self.targets

        def local(frame, event, arg):
            if event == "line":
                self._yield(tid, (frame.f_code.co_name, frame.f_lineno))
                # the line runs now, with no other worker running until the next yield point: what on_event reads
                # of the shared state is what the line is about to see
                if self.on_event is not None:
                    lab = self.on_event(frame)
                    if lab is not None:
                        self.events.append((tid, lab))
            return local

        def tracer(frame, event, arg):
            if event == "call" and frame.f_code in targets:
                return local
            return None
        self._yield(tid, ("<start>", 0))
        sys.settrace(tracer)
        try:
            r = ("ok", self.thunks[tid]())
        except BaseException as e:
            r = ("err", type(e).__name__, str(e))
        finally:
            sys.settrace(None)
        with self.cv:
            self.results[tid] = r
            self.state[tid] = "done"
            self.cv.notify_all()

    def run(self):
        threads = [threading.Thread(target=self._worker, args=(i,), daemon=True) for i in range(self.n)]
        for t in threads:
            t.start()
        with self.cv:
            while any(s == "new" for s in self.state):
                self.cv.wait()
        current = None
        step = 0
        deadlock = False
        while True:
            with self.cv:
                if all(s == "done" for s in self.state):
                    break
                enabled = [i for i in range(self.n) if self.state[i] == "waiting"]
                if not enabled:
                    # only blocked (or briefly running) workers: wait for one to arrive or finish
                    ok = self.cv.wait_for(lambda: any(s == "waiting" for s in self.state) or all(s == "done" for s in self.state), timeout=2.0)
                    if not ok:
                        deadlock = True
                        break
                    continue
                tid = self.choose(step, current if current in enabled else None, enabled)
                step += 1
                if step > self.max_steps:
                    deadlock = True
                    break
                self.trace.append((tid,) + tuple(self.where[tid]))
                self.state[tid] = "running"
                self.go[tid] = True
                self.cv.notify_all()
                arrived = self.cv.wait_for(lambda: self.state[tid] in ("waiting", "done"), timeout=self.block_wait)
                if not arrived:
                    self.state[tid] = "blocked" if self.state[tid] == "running" else self.state[tid]
                current = tid
            # a blocked worker that arrives later flips itself to "waiting" in _yield
        for t in threads:
            t.join(timeout=0.5)
        return dict(results=self.results, trace=self.trace, deadlock=deadlock, events=self.events)


def preemption_schedules(n_threads, length_hint, max_preempt):
    """schedules as lists of (step index, thread to switch to); the default policy runs the current thread on, and picks
    the lowest enabled thread when it is done or blocked"""
    import itertools
    yield []
    pts = range(1, length_hint)
    for k in range(1, max_preempt + 1):
        for steps in itertools.combinations(pts, k):
            for tids in itertools.product(range(n_threads), repeat=k):
                yield list(zip(steps, tids))


def chooser(switches, first=0):
    sw = dict(switches)

    def choose(step, current, enabled):
        if step in sw and sw[step] in enabled:
            return sw[step]
        if current is not None:
            return current
        return first if (step == 0 and first in enabled) else enabled[0]
    return choose
