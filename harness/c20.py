"""C20 — concurrent use is safe, including the first use of a type."""
import random, warnings, os, re, typing, time, linecache
from . import core, dyn, findings, sched

PID = "C20"
dyn.typing = typing


def target_codes():
    from utype.parser import base, rule, field as pfield, func as pfunc
    from utype.utils import base as ubase, transform
    fs = [base.BaseParser.resolve_forward_refs, getattr(base.BaseParser, "_resolve_forward_refs", None),
          base.BaseParser.resolve_forward_types, base.BaseParser.__call__,
          pfield.ParserField.resolve_forward_refs, rule.resolve_forward_type, rule.LogicalType.resolve_forward_refs,
          rule.Rule.resolve_forward_refs.__func__, rule.register_forward_ref, ubase.TypeRegistry.resolve,
          base.BaseParser.apply_for.__func__, transform.TypeTransformer.__call__, transform.TypeTransformer.apply,
          pfunc.FunctionParser.resolve_forward_types]
    out = set()

    def add(code):
        out.add(code)
        for c in code.co_consts:
            if hasattr(c, "co_code"):
                add(c)          # lambdas / comprehensions / closures inside a target are preemption points too
    for f in fs:
        if f is not None:
            add(f.__code__)
    return out


# --------------------------------------------------------------------------------------------
# scenarios: fresh declarations whose first parses are made by several threads
# --------------------------------------------------------------------------------------------
_N = [0]
WR = {"bare": "'%s'", "List": "List['%s']", "Optional": "Optional['%s']", "Dict": "Dict[str, '%s']", "whole": "'List[%s]'"}


def fresh_tag():
    _N[0] += 1
    return "Cc%d_%d" % (os.getpid(), _N[0])


def norm(s):
    return re.sub(r"Cc\d+_\d+", "Cc", s)


def val_for(w, inner):
    return {"bare": inner, "List": [inner], "Optional": inner, "Dict": {"k": inner}, "whole": [inner]}[w]


def make_scenario(spec):
    """spec: dict(kind, fields=[(wrapper or None, target 'B'/'C')], local, nthreads).  Returns (thunks, parser under test)"""
    t = fresh_tag()
    kind = spec["kind"]
    if kind == "class":
        lines = ["class %sA(Schema):" % t, "    x: int"]
        data = {"x": "1"}
        for i, (w, tg) in enumerate(spec["fields"]):
            if w is None:
                lines.append("    p%d: int = 0" % i)
                data["p%d" % i] = str(i)
            else:
                lines.append("    r%d: %s = None" % (i, WR[w] % (t + tg)))
                data["r%d" % i] = val_for(w, {"y": str(i)})
        lines += ["class %sB(Schema):" % t, "    y: int", "class %sC(Schema):" % t, "    y: int"]
        src = "\n".join(lines) + "\n"
        if spec["local"]:
            src = "def %smk():\n" % t + "".join("    " + l + "\n" for l in src.splitlines()) + "    return %sA, %sB, %sC\n%sA, %sB, %sC = %smk()\n" % (t, t, t, t, t, t, t)
        dyn.declare(src)
        A = dyn.get(t + "A")
        thunks = [(lambda: repr(A(**data))) for _ in range(spec["nthreads"])]
        return thunks, A.__parser__
    if kind == "func":
        src = ("@utype.parse\ndef %sf(a: '%sB', bs: List['%sB'] = None, *rest: '%sC') -> '%sB':\n    return a\n"
               "class %sB(Schema):\n    y: int\nclass %sC(Schema):\n    y: int\n" % (t, t, t, t, t, t, t))
        dyn.declare(src)
        f = dyn.get(t + "f")
        thunks = [(lambda: repr(f({"y": "1"}, [{"y": 2}], {"y": 3}))), (lambda: repr(f({"y": "5"})))][:spec["nthreads"]]
        return thunks, f.__parser__
    if kind == "nested":
        # thread 0 parses A (which holds B, itself with a pending reference to C), thread 1 parses B directly
        src = ("class %sA(Schema):\n    b: '%sB'\nclass %sB(Schema):\n    c: Optional['%sC'] = None\n    cs: List['%sC'] = Field(default_factory=list)\n"
               "class %sC(Schema):\n    y: int\n" % (t, t, t, t, t, t))
        dyn.declare(src)
        A, B = dyn.get(t + "A"), dyn.get(t + "B")
        thunks = [lambda: repr(A(b={"c": {"y": "1"}, "cs": [{"y": 2}]})), lambda: repr(B(c={"y": "3"}, cs=[{"y": "4"}]))]
        return thunks, B.__parser__
    if kind == "shared":
        # two classes holding the same typing-cached List['C'] object: first parses of each in different threads
        src = ("class %sA(Schema):\n    cs: List['%sC'] = Field(default_factory=list)\nclass %sD(Schema):\n    cs: List['%sC'] = Field(default_factory=list)\n    o: Optional['%sC'] = None\n"
               "class %sC(Schema):\n    y: int\n" % (t, t, t, t, t, t))
        dyn.declare(src)
        A, D = dyn.get(t + "A"), dyn.get(t + "D")
        thunks = [lambda: repr(A(cs=[{"y": "1"}])), lambda: repr(D(cs=[{"y": 2}], o={"y": "3"}))]
        return thunks, A.__parser__
    if kind == "inherit":
        src = ("class %sA(Schema):\n    b: '%sB'\n    bs: List['%sB'] = Field(default_factory=list)\nclass %sS(%sA):\n    z: int = 0\n"
               "class %sB(Schema):\n    y: int\n" % (t, t, t, t, t, t))
        dyn.declare(src)
        A, S = dyn.get(t + "A"), dyn.get(t + "S")
        thunks = [lambda: repr(S(b={"y": "1"}, bs=[{"y": 2}], z="3")), lambda: repr(A(b={"y": "4"})), lambda: repr(S(b={"y": "5"}))][:spec["nthreads"]]
        return thunks, A.__parser__
    if kind == "registry":
        # first conversions to a type the registry has not resolved yet
        src = "class %sE(str):\n    pass\nclass %sK(Schema):\n    e: %sE\n    es: List[%sE] = Field(default_factory=list)\n" % (t, t, t, t)
        dyn.declare(src)
        K = dyn.get(t + "K")
        thunks = [lambda: repr(K(e="a", es=["b"])), lambda: repr(K(e=1))]
        return thunks, K.__parser__
    if kind == "lazy-apply":
        # a plain module-level function (and a plain class) wrapped at first use, by both threads
        src = "def %sh(x: int, y: str = 'a'):\n    return (x, y)\nclass %sP:\n    def __init__(self, v: int = 0):\n        self.v = v\n" % (t, t)
        dyn.declare(src)
        h, P = dyn.get(t + "h"), dyn.get(t + "P")
        import utype as _u
        thunks = [lambda: repr(_u.parse(h)("3")), lambda: repr(_u.parse(h)("4", y=5)), lambda: repr(_u.parse(h)(x="6"))][:spec["nthreads"]]
        return thunks, None
    if kind == "registered":
        # a converter registered (single-threaded) for a new type, then its first lookups made by two threads
        src = ("class %sT(float):\n    pass\n"
               "class %sR(Schema):\n    t: %sT\n"
               "@utype.utils.transform.TypeTransformer.registry.register(%sT)\ndef %sconv(trans, data, t):\n    return t(float(data))\n"
               % (t, t, t, t, t))
        dyn.declare(src)
        R, T = dyn.get(t + "R"), dyn.get(t + "T")
        from utype.utils.transform import type_transform
        thunks = [lambda: repr(type_transform("21.5", T)), lambda: repr(R(t="21.5")), lambda: repr(type_transform("3", int))][:spec["nthreads"]]
        return thunks, R.__parser__
    raise ValueError(kind)


def expected_of(spec):
    thunks, _ = make_scenario(spec)
    out = []
    for th in thunks:
        try:
            out.append(("ok", norm(th())))
        except Exception as e:
            out.append(("err", type(e).__name__, norm(str(e))))
    return out


def normalise(results):
    out = []
    for r in results:
        if r is None:
            out.append(("none",))
        elif r[0] == "ok":
            out.append(("ok", norm(r[1])))
        else:
            out.append(("err", r[1], norm(r[2])))
    return out


# --------------------------------------------------------------------------------------------
# 1. protocol traces against Model/Concur.v
# --------------------------------------------------------------------------------------------
class Tracer:
    """turns the line events of resolve_forward_refs / _resolve_forward_refs on one parser into model events"""

    def __init__(self, parser):
        from utype.parser import base
        self.parser = parser
        self.names = list(parser.forward_refs)
        self.ref_idx = {id(parser.forward_refs[n][0]): i for i, n in enumerate(self.names)}
        self.codes = {base.BaseParser.resolve_forward_refs.__code__: "outer"}
        inner = getattr(base.BaseParser, "_resolve_forward_refs", None)
        if inner is not None:
            self.codes[inner.__code__] = "inner"
        self.calls = {}          # (thread ident, frame id of the outer call) -> virtual thread

    def label(self, frame):
        which = self.codes.get(frame.f_code)
        if which is None or frame.f_locals.get("self") is not self.parser:
            return None
        text = linecache.getline(frame.f_code.co_filename, frame.f_lineno).strip()
        par = self.parser
        if which == "outer":
            if text.startswith("if not self.forward_refs and not self._forward_resolving"):
                return ["EFast %s" % ("true" if (not par.forward_refs and not par._forward_resolving) else "false")]
            if text.startswith("if not self.forward_refs:"):
                return ["EAcq", "ECheck %s" % ("true" if not par.forward_refs else "false")]
            if text.startswith("self._forward_resolving = True"):
                return ["EResOn"]
            if text.startswith("self._forward_resolving = False"):
                return ["EResOff"]
            return None
        if text.startswith("for name in list(self.forward_refs)") and "name" not in frame.f_locals:
            return ["ESnap"]
        if text.startswith("ref, constraints = self.forward_refs[name]"):
            return ["ELook %d" % self.names.index(frame.f_locals["name"])]
        if text.startswith("self.forward_refs.pop(name)"):
            return ["EPop %d" % self.names.index(frame.f_locals["name"])]
        if text.startswith("field.resolve_forward_refs()"):
            return ["ESubst"]
        if text.startswith("ref.__forward_evaluated__ = False") and "clear_refs" in frame.f_locals:
            return ["EClear %d" % self.ref_idx.get(id(frame.f_locals["ref"]), 99)]
        return None


def field_terms(parser, tracer):
    from typing import ForwardRef
    from utype.parser.rule import LogicalType

    def find(t, depth=0):
        if isinstance(t, ForwardRef):
            return [tracer.ref_idx.get(id(t), 99)]
        out = []
        if isinstance(t, LogicalType) and depth < 6:
            for a in (getattr(t, "__args__", None) or ()):
                out += find(a, depth + 1)
            for a in (getattr(t, "args", None) or ()):
                out += find(a, depth + 1)
            o = getattr(t, "__origin__", None)
            if isinstance(o, LogicalType):
                out += find(o, depth + 1)
        return out
    terms = []
    for f in parser.fields.values():
        cs = sorted(set(find(f.type)))
        if len(cs) > 1:
            return None
        terms.append("FRef %d" % cs[0] if cs else "FRes")
    return terms


def trace_case(i_seed):
    """one class scenario (each field holds at most one pending reference), 2-3 threads, a random schedule: the events of the real run"""
    warnings.simplefilter("ignore")
    rng = random.Random(i_seed)
    k = rng.randint(1, 4)
    spec = dict(kind="class", local=rng.random() < 0.4, nthreads=rng.choice([2, 2, 3]),
                fields=[(rng.choice([None, "bare", "List", "Optional", "Dict", "whole"]), rng.choice("BC")) for _ in range(k)])
    exp = expected_of(spec)
    thunks, par = make_scenario(spec)
    tr = Tracer(par)
    flds = field_terms(par, tr)
    if flds is None:
        return ("skip", None)
    p_switch = rng.choice([0.02, 0.05, 0.15, 0.4])
    state = {"cur": None}

    def choose(step, current, enabled):
        if current is None or rng.random() < p_switch:
            return rng.choice(enabled)
        return current
    # one resolve call = one model thread; a thread of the run makes one call here (the class is parsed once per thunk)
    seen_calls = {}
    events = []

    def on_event(frame):
        labs = tr.label(frame)
        return labs
    r = sched.Run(target_codes(), thunks, choose, on_event=on_event).run()
    got = normalise(r["results"])
    per_thread_fast = {}
    out = []
    for tid, labs in r["events"]:
        for lab in labs:
            if lab.startswith("EFast"):
                per_thread_fast[tid] = per_thread_fast.get(tid, 0) + 1
                if per_thread_fast[tid] > 1:
                    return ("skip", "the parser's resolve is entered more than once per call")
            out.append("(%d, %s)" % (tid, lab))
    for tid, g in enumerate(got):
        out.append("(%d, EFetch)" % tid)
        out.append("(%d, EUse true)" % tid if g == exp[tid] else "(%d, EFail NotEvaluated)" % tid)
    term = "(%s, %d, [%s], [%s], [%s])" % ("true" if spec["local"] else "false", spec["nthreads"],
                                         "; ".join(str(i) for i in range(len(tr.names))), "; ".join(flds), "; ".join(out))
    stats = dict(events=len(out), local=int(spec["local"]), threads=spec["nthreads"], pending=len(tr.names),
                 blocked=int(any(lab == "EFast false" for _, labs in r["events"] for lab in labs)),
                 wrong_result=int(got != exp), deadlock=int(r["deadlock"]))
    return ("case", term, stats, (spec, got, exp))


def trace_suite(res, seed, n):
    outs = core.pool_map(trace_case, [seed * 1000303 + i for i in range(n)], soft=20.0, hard=90.0, nproc=max(2, core.NCPU // 2))
    terms, agg, wrong = [], {}, []
    for o in outs:
        if isinstance(o, tuple) and o[0] == "case":
            terms.append(o[1])
            for k, v in o[2].items():
                agg[k] = agg.get(k, 0) + v
            if o[2]["wrong_result"] or o[2]["deadlock"]:
                wrong.append(o[3])
        elif isinstance(o, tuple) and o[0] == "skip":
            agg["skipped"] = agg.get("skipped", 0) + 1
    body = ("From Coq Require Import Bool Arith.\nClose Scope Z_scope. Close Scope string_scope. Open Scope nat_scope. Open Scope bool_scope.\n"
            "Definition case_ok (c : bool * nat * list nat * list fld * list (nat * event)) : bool :=\n"
            "  let '(local, n, pend, flds, tr) := c in accepts true local (init n pend flds) tr.\n"
            "Definition cases : list (bool * nat * list nat * list fld * list (nat * event)) := [\n%s\n].\n"
            "Goal True. idtac \"MISMATCH\". exact I. Qed.\nEval vm_compute in (bad_idx case_ok cases).\n" % ";\n".join(terms))
    rc, out = core.coq_eval("c20trace_%d" % os.getpid(), ["Validators", "Concur"], body)
    bad = core.parse_nat_list(out, "MISMATCH") if rc == 0 else None
    if bad is None:
        res.broken.append(dict(kind="correspondence", name="protocol-trace (coqc failed)", detail=out[-1500:]))
        bad = []
    res.add_suite("protocol-trace", len(terms), len(set(terms)), [terms[0][:400] if terms else ""],
                  "a fresh class (1-4 fields: plain, or one string reference each through bare / List / Optional / Dict / wholly quoted "
                  "spellings; module level or local to a function), 2-3 threads making its first parse under the deterministic "
                  "line-level scheduler with a random schedule (switch probability 0.02-0.4): the sequence of (thread, event) read off "
                  "the executed lines of resolve_forward_refs / _resolve_forward_refs (fast-path test, lock acquired, table check, "
                  "flag on, snapshot, lookup, pop, field update, reset, flag off) and each thread's outcome must be the run of "
                  "Model/Concur.v under the same schedule",
                  dict(mismatches=len(bad), **agg))
    if bad:
        res.broken.append(dict(kind="correspondence", name="protocol-trace",
                               detail="the real run is not a run of the model on %d cases; first: %s" % (len(bad), terms[bad[0]][:3000])))
    for spec, got, exp in wrong[:2]:
        m = "threads %r: results %r, alone %r" % (spec, got, exp)
        res.violations.append(dict(case=repr(dict(kind="trace-run", spec=spec)), observed=m, what=m))


# --------------------------------------------------------------------------------------------
# 1b. lookups in the converter registry against Model/RegCache.v
# --------------------------------------------------------------------------------------------
def regtrace_case(i_seed):
    """2-3 threads converting to 1-3 fresh subclasses of str / int / float (first lookups), random schedule: the events of
    TypeRegistry.resolve on the transformer registry, one model thread per call"""
    warnings.simplefilter("ignore")
    from utype.utils.transform import TypeTransformer, type_transform
    from utype.utils import base as ubase
    rng = random.Random(i_seed)
    reg = TypeTransformer.registry
    t = fresh_tag()
    k = rng.randint(1, 3)
    bases = [rng.choice(["str", "int", "float"]) for _ in range(k)]
    dyn.declare("".join("class %sE%d(%s):\n    pass\n" % (t, i, b) for i, b in enumerate(bases)))
    types = [dyn.get("%sE%d" % (t, i)) for i in range(k)]
    tidx = {ty: i for i, ty in enumerate(types)}
    convs = {}

    def cidx(f):
        return convs.setdefault(id(f), len(convs) + 1)
    scan = []
    for ty in types:
        found = None
        for detector, trans, prio in reg._registry:
            try:
                if detector(ty):
                    found = trans
                    break
            except (TypeError, ValueError):
                continue
        if found is None:
            return ("skip", None)
        scan.append(cidx(found))
    nth = rng.choice([2, 2, 3])
    plans = [[rng.randrange(k) for _ in range(rng.randint(1, 2))] for _ in range(nth)]
    samples = {"str": "a", "int": "3", "float": "1.5"}
    thunks = [(lambda pl=pl: [repr(type_transform(samples[bases[j]], types[j])) for j in pl]) for pl in plans]
    code = ubase.TypeRegistry.resolve.__code__
    calls = {}           # id(frame) -> virtual thread
    reqs = []

    def on_event(frame):
        if frame.f_code is not code or frame.f_locals.get("self") is not reg:
            return None
        ty = frame.f_locals.get("t")
        if ty not in tidx:
            return None
        text = linecache.getline(frame.f_code.co_filename, frame.f_lineno).strip()
        key = id(frame)
        labs = None
        if text.startswith("if self.cache and t in self._cache"):
            calls[key] = len(reqs)
            reqs.append(tidx[ty])
            labs = ["ETest %s" % ("true" if ty in reg._cache else "false")]
        elif text.startswith("return self._cache[t]"):
            labs = ["EHit %d" % cidx(reg._cache[ty])] if ty in reg._cache else ["EKey"]
        elif text.startswith("self._cache[t] = trans"):
            labs = ["EScan %d" % cidx(frame.f_locals["trans"]), "EFill"]
        if labs is None or key not in calls:
            return None
        return [(calls[key], l) for l in labs]
    p_switch = rng.choice([0.05, 0.2, 0.5])

    def choose(step, current, enabled):
        if current is None or rng.random() < p_switch:
            return rng.choice(enabled)
        return current
    r = sched.Run({code}, thunks, choose, on_event=on_event).run()
    evs = [x for _, labs in r["events"] for x in labs]
    ok = all(res is not None and res[0] == "ok" for res in r["results"])
    term = "([%s], [%s], [%s])" % ("; ".join(str(c) for c in scan), "; ".join(str(q) for q in reqs),
                                  "; ".join("(%d, %s)" % (v, l) for v, l in evs))
    return ("case", term, dict(calls=len(reqs), events=len(evs), hits=sum(1 for _, l in evs if l.startswith("EHit")),
                               fills=sum(1 for _, l in evs if l == "EFill"), failed=int(not ok)), r["results"])


def regtrace_suite(res, seed, n):
    outs = core.pool_map(regtrace_case, [seed * 1000403 + i for i in range(n)], soft=20.0, hard=90.0, nproc=max(2, core.NCPU // 2))
    terms, agg, failed = [], {}, []
    for o in outs:
        if isinstance(o, tuple) and o[0] == "case":
            terms.append(o[1])
            for k, v in o[2].items():
                agg[k] = agg.get(k, 0) + v
            if o[2]["failed"]:
                failed.append(o[3])
    body = ("From Coq Require Import Bool Arith.\nClose Scope Z_scope. Close Scope string_scope. Open Scope nat_scope. Open Scope bool_scope.\n"
            "Definition case_ok (c : list nat * list nat * list (nat * revent)) : bool :=\n"
            "  let '(sc, reqs, tr) := c in raccepts (fun t => nth t sc 0) {| r_cache := []; r_ths := map RTest reqs |} tr.\n"
            "Definition cases : list (list nat * list nat * list (nat * revent)) := [\n%s\n].\n"
            "Goal True. idtac \"MISMATCH\". exact I. Qed.\nEval vm_compute in (bad_idx case_ok cases).\n" % ";\n".join(terms))
    rc, out = core.coq_eval("c20reg_%d" % os.getpid(), ["Validators", "Concur", "RegCache"], body)
    bad = core.parse_nat_list(out, "MISMATCH") if rc == 0 else None
    if bad is None:
        res.broken.append(dict(kind="correspondence", name="registry-trace (coqc failed)", detail=out[-1500:]))
        bad = []
    res.add_suite("registry-trace", len(terms), len(set(terms)), [terms[0][:300] if terms else ""],
                  "2-3 threads making first conversions to 1-3 fresh subclasses of str / int / float under the deterministic scheduler "
                  "(every line of TypeRegistry.resolve is a preemption point, switch probability 0.05-0.5): the events of each call on "
                  "the transformer registry (cache test, read of a hit, scan result, fill) must be the run of Model/RegCache.v under "
                  "the same schedule, the scan function being an independent sequential scan of the registrations",
                  dict(mismatches=len(bad), **agg))
    if bad:
        res.broken.append(dict(kind="correspondence", name="registry-trace",
                               detail="the real run is not a run of the model on %d cases; first: %s" % (len(bad), terms[bad[0]][:2000])))
    for f in failed[:2]:
        m = "a conversion failed under the scheduler: %r" % (f,)
        res.violations.append(dict(case=repr(dict(kind="registry-run")), observed=m, what=m))


# --------------------------------------------------------------------------------------------
# 2. bounded-preemption exploration of the real code
# --------------------------------------------------------------------------------------------
SCENARIOS = [
    dict(kind="class", local=False, nthreads=2, fields=[("bare", "B"), ("List", "B"), ("Optional", "C")]),
    dict(kind="class", local=True, nthreads=2, fields=[("Optional", "B"), ("Dict", "C")]),
    dict(kind="class", local=False, nthreads=3, fields=[("whole", "B")]),
    dict(kind="func", nthreads=2),
    dict(kind="nested", nthreads=2),
    dict(kind="shared", nthreads=2),
    dict(kind="inherit", nthreads=3),
    dict(kind="registry", nthreads=2),
    dict(kind="registered", nthreads=3),
    dict(kind="lazy-apply", nthreads=2),
]


def explore_one(job):
    """job: (scenario index, list of switches).  Returns None when every thread got its sequential result"""
    warnings.simplefilter("ignore")
    si, sw = job
    spec = SCENARIOS[si]
    exp = expected_of(spec)
    thunks, _ = make_scenario(spec)
    r = sched.Run(target_codes(), thunks, sched.chooser(sw)).run()
    got = normalise(r["results"])
    if got != exp or r["deadlock"]:
        return dict(scenario=spec, switches=sw, got=got, alone=exp, deadlock=r["deadlock"], tail=r["trace"][-8:])
    return None


def trace_length(si):
    thunks, _ = make_scenario(SCENARIOS[si])
    return len(sched.Run(target_codes(), thunks, sched.chooser([])).run()["trace"])


def explore_suite(res, seed, tier):
    rng = random.Random(seed * 77 + 20)
    jobs = []
    lengths = {}
    for si, spec in enumerate(SCENARIOS):
        L = trace_length(si)
        lengths[spec["kind"] + str(si)] = L
        n = spec["nthreads"]
        # every single preemption in the first part of the run (where the first use happens), sampled beyond; sampled pairs
        first = min(L, 140)
        singles = [(s, t) for s in range(1, first) for t in range(n)]
        if tier == "quick" and len(singles) > 260:
            singles = rng.sample(singles, 70)
        for s, t in singles:
            jobs.append((si, [(s, t)]))
        pairs = 25 if tier == "quick" else 400
        for _ in range(pairs):
            a, b = sorted(rng.sample(range(1, first), 2))
            jobs.append((si, [(a, rng.randrange(n)), (b, rng.randrange(n))]))
        if tier != "quick":
            for _ in range(150):
                pts = sorted(rng.sample(range(1, first), 3))
                jobs.append((si, [(p, rng.randrange(n)) for p in pts]))
    outs = core.pool_map(explore_one, jobs, soft=30.0, hard=120.0, nproc=max(2, core.NCPU // 2))
    bad = [o for o in outs if isinstance(o, dict)]
    res.add_suite("interleavings", len(jobs), len(jobs), ["scenarios: %s" % ", ".join(s["kind"] for s in SCENARIOS)],
                  "fresh declarations whose first uses are made by 2-3 threads (a class with pending references at module level and "
                  "local to a function, a parsed function with forward parameter / *args / return types, a class reached both directly "
                  "and through another class, two classes sharing a typing-cached List['C'], a subclass and its base, first "
                  "conversions to a type the converter registry has not seen) under the deterministic line-level scheduler: "
                  "preemption points are the executed lines of resolve_forward_refs, the resolution helpers of rule.py / field.py, "
                  "BaseParser.__call__ / apply_for, TypeRegistry.resolve and TypeTransformer.__call__ / apply; schedules with one "
                  "preemption (every point of the first 140 steps in the thorough tier), two and three preemptions (sampled); every "
                  "thread must return what it returns alone",
                  dict(failures=len(bad), sequential_trace_lengths=lengths))
    for o in bad[:3]:
        m = "schedule %r on %r: results %r, alone %r%s" % (o["switches"], o["scenario"], o["got"], o["alone"], " (deadlock)" if o["deadlock"] else "")
        res.violations.append(dict(case=repr(dict(kind="interleaving", scenario=o["scenario"], switches=o["switches"])), observed=m, what=m))


SEARCH_SPECS = [dict(kind="class", local=True, nthreads=2, fields=[("bare", "B")]),
                dict(kind="class", local=False, nthreads=2, fields=[("bare", "B"), ("List", "C")])]


def search_one(job):
    warnings.simplefilter("ignore")
    si, sw = job
    spec = SEARCH_SPECS[si]
    exp = expected_of(spec)
    thunks, _ = make_scenario(spec)
    r = sched.Run(target_codes(), thunks, sched.chooser(sw)).run()
    got = normalise(r["results"])
    if got != exp or r["deadlock"]:
        return dict(scenario=spec, switches=sw, got=got, alone=exp, deadlock=r["deadlock"])
    return None


def search(res):
    """the protocol no longer matches the model: look for a schedule on which a call really fails.  Thread 0 runs to step a,
    thread 1 to step b, thread 0 to its end, thread 1 to its end: every a in thread 0's run, b up to 70 steps later"""
    jobs = []
    for si, spec in enumerate(SEARCH_SPECS):
        thunks, _ = make_scenario(spec)
        L = len(sched.Run(target_codes(), thunks[:1], sched.chooser([])).run()["trace"])
        for a in range(1, L):
            for b in range(a + 1, a + 70, 1):
                jobs.append((si, [(a, 1), (b, 0)]))
    outs = core.pool_map(search_one, jobs, soft=30.0, hard=120.0, nproc=max(2, core.NCPU // 2))
    found = [o for o in outs if isinstance(o, dict)]
    res.notes.append("search after a broken obligation: %d two-preemption schedules, %d failing" % (len(jobs), len(found)))
    out = []
    for o in found[:3]:
        m = "schedule %r on %r: results %r, alone %r%s" % (o["switches"], o["scenario"], o["got"], o["alone"], " (deadlock)" if o["deadlock"] else "")
        out.append(dict(case=repr(dict(kind="interleaving", scenario=o["scenario"], switches=o["switches"])), observed=m, what=m))
    return out


def main(tier, seed):
    warnings.simplefilter("ignore")
    res = core.Result(PID, tier, seed)
    core.prove(res, PID)
    findings.replay_all(res, PID, {})
    if core.build(["Model/Concur.vo", "Model/Validators.vo"])["ok"]:
        trace_suite(res, seed, 150 if tier == "quick" else 3000)
        if core.build(["Model/RegCache.vo"])["ok"]:
            regtrace_suite(res, seed, 150 if tier == "quick" else 3000)
    explore_suite(res, seed, tier)
    return core.finish(res, "make -C coq Props/C20.vo && coqc (Print Assumptions audit)", "see suites", search=search,
                       level_note="partial: the theorems are about the first-parse protocol (lock, flag, table, cells, fields) as a transition "
                                  "system, for all thread counts and all schedules; the real code is tied to it by replaying line-level "
                                  "event traces produced under a deterministic scheduler; CPython's own atomicity (a line of the "
                                  "protocol is one step), the converter registry, the parser cache and the conversions are explored on "
                                  "the implementation by bounded-preemption search only")


def replay(path):
    import json as _j
    d = _j.loads(open(path).read())
    print(_j.dumps(d, indent=1)[:6000])
    if "case" not in d:
        r = core.build(["Props/%s.vo" % PID])
        return 0 if r["ok"] else 1
    return 1
