"""C16 — converter resolution is a pure function of the registrations made so far.
Correspondence suite `registry`: random histories of register/resolve on a real
utype.utils.base.TypeRegistry chain, compared inside Coq with Model/Registry.v `rrun`
(which Props/C16.v proves equal to the specification for every history)."""
import random
from . import core

PID = "C16"


def make_world():
    """A small class hierarchy with metaclasses, attributes and shortcut converters."""
    class M0(type):
        pass

    class M1(M0):
        pass

    class K0:
        a0 = 1

    class K1(K0):
        a1 = None          # present (hasattr), with a value that is None: K3 sees this one first

    class K2(K0):
        a1 = 2

    class K3(K1, K2):
        pass

    class K4(metaclass=M0):
        a0 = 3

    class K5(K4, metaclass=M1):
        a1 = 0             # present, falsy

    class K6:
        a0 = None          # present, None

    classes = [K0, K1, K2, K3, K4, K5, K6]
    metas = [M0, M1]
    attrs = ["a0", "a1", "zz"]
    convs = []
    for i in range(8):
        def f(*a, _i=i, **k):
            return _i
        f.__name__ = "conv%d" % i
        convs.append(f)
    return classes, metas, attrs, convs


def gen_case(rng, maxops):
    nreg = rng.choice([1, 1, 1, 2, 3])
    confs = [(rng.random() < 0.75, rng.choice([None, None, 6, 7])) for _ in range(nreg)]
    use_shortcut = rng.random() < 0.3
    shortcut_classes = rng.sample(range(7), rng.choice([0, 1, 2])) if use_shortcut else []
    ndet = 2
    det_table = {}
    for d in range(ndet):
        for c in range(7):
            det_table[(d, c)] = rng.choice([True, False, False, None, "TypeError", "ValueError"])
    ops = []
    n = rng.randint(2, maxops)
    for _ in range(n):
        if rng.random() < 0.5:
            which = rng.randrange(nreg)
            if rng.random() < 0.15:
                crit = ("custom", rng.randrange(ndet))
            else:
                k = rng.choice([0, 1, 1, 1, 2])
                cl = rng.sample(range(7), k)
                allow = rng.random() < 0.6
                meta = rng.choice([None, None, None, 0, 1])
                attr = rng.choice([None, None, None, 0, 1, 2])
                if not cl and meta is None and attr is None:
                    cl = [rng.randrange(7)]
                crit = ("std", cl, allow, meta, attr)
            ops.append(("register", which, crit, rng.randrange(6), rng.choice([0, 0, 0, 1, 1, 2, -1, 3])))
        else:
            ops.append(("resolve", rng.randrange(7)))
    return dict(confs=confs, use_shortcut=use_shortcut, shortcut_classes=shortcut_classes,
                det_table={"%d,%d" % k: v for k, v in det_table.items()}, ops=ops)


def run_impl(case):
    """Drive a real TypeRegistry chain with the history; return the list of resolve results."""
    from utype.utils.base import TypeRegistry
    classes, metas, attrs, convs = make_world()
    sc_name = "__sc__" if case["use_shortcut"] else None
    for ci in case["shortcut_classes"]:
        # set on the class itself; subclasses inherit it, as hasattr sees
        setattr(classes[ci], "__sc__", convs[5])
    chain = []
    base = None
    for uc, d in reversed(case["confs"]):
        r = TypeRegistry("r", base=base, cache=uc, default=(convs[d] if d is not None else None),
                         shortcut=sc_name)
        chain.insert(0, r)
        base = r
    dett = case["det_table"]

    def mk_det(d):
        def det(c):
            v = dett["%d,%d" % (d, classes.index(c))]
            if v == "TypeError":
                raise TypeError("x")
            if v == "ValueError":
                raise ValueError("x")
            return v
        return det
    out = []
    for op in case["ops"]:
        if op[0] == "register":
            _, which, crit, f, prio = op
            if crit[0] == "custom":
                chain[which].register(detector=mk_det(crit[1]), priority=prio)(convs[f])
            else:
                _, cl, allow, meta, attr = crit
                chain[which].register(*[classes[i] for i in cl],
                                      attr=(attrs[attr] if attr is not None else None),
                                      metaclass=(metas[meta] if meta is not None else None),
                                      allow_subclasses=allow, priority=prio)(convs[f])
        else:
            r = chain[0].resolve(classes[op[1]])
            out.append(None if r is None else convs.index(r))
    return ("ok", out)


def world_tables(case):
    classes, metas, attrs, convs = make_world()
    for ci in case["shortcut_classes"]:
        setattr(classes[ci], "__sc__", convs[5])
    sub = [(i, j) for i, c in enumerate(classes) for j, d in enumerate(classes) if issubclass(c, d)]
    meta = [(i, j) for i, c in enumerate(classes) for j, m in enumerate(metas) if isinstance(c, m)]
    attr = [(i, j) for i, c in enumerate(classes) for j, a in enumerate(attrs) if hasattr(c, a)]
    sc = [(i, 5) for i, c in enumerate(classes) if hasattr(c, "__sc__")]
    return sub, meta, attr, sc


def pairs(l):
    return "[" + "; ".join("(%d%%nat, %d%%nat)" % p for p in l) + "]"


def optnat(x):
    return "None" if x is None else "(Some %d%%nat)" % x


def coq_case(case, expected):
    sub, meta, attr, sc = world_tables(case)
    det = []
    for k, v in case["det_table"].items():
        d, c = map(int, k.split(","))
        if v is True:
            r = "(Some true)"
        elif v in ("TypeError", "ValueError"):
            r = "None"
        else:
            r = "(Some false)"   # False and None are both falsy
        det.append("(%d%%nat, %d%%nat, %s)" % (d, c, r))
    ops = []
    for op in case["ops"]:
        if op[0] == "register":
            _, which, crit, f, prio = op
            if crit[0] == "custom":
                cr = "(CCustom %d%%nat)" % crit[1]
            else:
                _, cl, allow, m, a = crit
                cr = "(CStd [%s] %s %s %s)" % ("; ".join("%d%%nat" % i for i in cl),
                                              "true" if allow else "false", optnat(m), optnat(a))
            ops.append("OpRegister %d%%nat %s %d%%nat (%d)" % (which, cr, f, prio))
        else:
            ops.append("OpResolve %d%%nat" % op[1])
    confs = "[" + "; ".join("(%s, %s)" % ("true" if uc else "false", optnat(d)) for uc, d in case["confs"]) + "]"
    return ("{| rc_hier := mk_hier %s %s %s [%s] %s; rc_shortcut := %s; rc_confs := %s;\n"
            "   rc_ops := [%s];\n   rc_expected := [%s] |}"
            % (pairs(sub), pairs(meta), pairs(attr), "; ".join(det), pairs(sc),
               "true" if case["use_shortcut"] else "false", confs,
               "; ".join(ops), "; ".join(optnat(x) for x in expected)))


def spec_oracle(case, got):
    """The property stated directly (Python re-statement of Spec/RegistrySpec.v `best`), used only
    by the failing-input search."""
    sub, meta, attr, sc = world_tables(case)
    sub, meta, attr = set(sub), set(meta), set(attr)
    scd = dict(sc)
    hist = [[] for _ in case["confs"]]
    exp = []
    for op in case["ops"]:
        if op[0] == "register":
            hist[op[1]].insert(0, op[2:])
            continue
        c = op[1]
        if case["use_shortcut"] and c in scd:
            exp.append(scd[c])
            continue
        ans = None
        found = False
        for ri, h in enumerate(hist):
            best = None
            for crit, f, prio in h:           # newest first
                if crit[0] == "custom":
                    m = case["det_table"]["%d,%d" % (crit[1], c)] is True
                else:
                    _, cl, allow, mt, at = crit
                    m = True
                    if cl:
                        m = any((c, d) in sub for d in cl) if allow else c in cl
                    if mt is not None and (c, mt) not in meta:
                        m = False
                    if at is not None and (c, at) not in attr:
                        m = False
                if m and (best is None or prio > best[1]):
                    best = (f, prio)
            if best:
                ans = best[0]
                found = True
                break
        if not found:
            ans = case["confs"][-1][1]
        exp.append(ans)
    return exp == got, exp


def shrink(case, still_bad):
    ops = list(case["ops"])
    changed = True
    while changed:
        changed = False
        for i in range(len(ops)):
            cand = ops[:i] + ops[i + 1:]
            c2 = dict(case, ops=cand)
            if still_bad(c2):
                ops = cand
                case = c2
                changed = True
                break
    return case


def run(tier, seed):
    res = core.Result(PID, tier, seed)
    core.prove(res, PID)
    rng = random.Random(seed * 7919 + 16)
    n = 1500 if tier == "quick" else 20000
    maxops = 12 if tier == "quick" else 40
    cases = [gen_case(rng, maxops) for _ in range(n)]
    # corpus first
    corpus = core.VERIF / "corpus" / PID
    pre = []
    if corpus.exists():
        import json
        for f in sorted(corpus.glob("*.json")):
            pre.append(json.loads(f.read_text()))
    cases = pre + cases
    outs = core.pool_map(run_impl, cases)
    shards, shard_idx = [], []
    per = 400
    errs = []
    for s in range(0, len(cases), per):
        body, idx = [], []
        for i in range(s, min(len(cases), s + per)):
            o = outs[i]
            if o[0] != "ok":
                errs.append((i, o))
                continue
            body.append(coq_case(cases[i], o[1]))
            idx.append(i)
        shards.append("Definition cases : list rcase := [\n%s\n].\nGoal True. idtac \"MISMATCH\". exact I. Qed.\n"
                      "Eval vm_compute in (bad_cases rcase_ok cases).\n" % ";\n".join(body))
        shard_idx.append(idx)
    mism = []
    if core.build(["Model/Registry.vo"])["ok"]:
        for (rc, out), idx in zip(core.run_sharded("c16", ["PyVal", "Registry"], shards), shard_idx):
            bad = core.parse_nat_list(out, "MISMATCH") if rc == 0 else None
            if bad is None:
                res.broken.append(dict(kind="correspondence", name="registry (coqc failed)", detail=out[-1500:]))
                continue
            mism.extend(idx[b] for b in bad)
    for i, o in errs:
        res.broken.append(dict(kind="correspondence", name="registry (implementation raised)",
                               detail="case %d: %r" % (i, o)))
    distinct = len({repr(c["ops"]) + repr(c["confs"]) for c in cases
                    if any(o[0] == "resolve" for o in c["ops"]) and any(o[0] == "register" for o in c["ops"])})
    opmix = {"register": sum(1 for c in cases for o in c["ops"] if o[0] == "register"),
             "resolve": sum(1 for c in cases for o in c["ops"] if o[0] == "resolve"),
             "chains>1": sum(1 for c in cases if len(c["confs"]) > 1),
             "cached": sum(1 for c in cases if c["confs"][0][0])}
    res.add_suite("registry", len(cases), distinct,
                  [dict(case=cases[len(pre)], impl=outs[len(pre)][1])],
                  "random register/resolve histories (<=%d ops) on a 7-class hierarchy with 2 metaclasses, "
                  "3 attributes, 2 custom detectors, chains of 1-3 registries; non-trivial = has both a "
                  "register and a resolve; distinct by (ops, configuration)" % maxops,
                  dict(operation_mix=opmix, mismatches=len(mism)))
    if mism:
        res.broken.append(dict(kind="correspondence", name="registry",
                               detail="model/implementation differ on %d histories, first index %d" % (len(mism), mism[0])))
        res._mism = [cases[i] for i in mism[:20]]
    return res


def search(res):
    """Find a history on which the implementation violates the specification itself."""
    found = []
    cand = list(getattr(res, "_mism", []))
    rng = random.Random(res.seed + 99)
    cand += [gen_case(rng, 10) for _ in range(3000)]

    def bad(c):
        o = run_impl(c)
        return o[0] != "ok" or not spec_oracle(c, o[1])[0]
    for c in cand:
        try:
            if bad(c):
                c = shrink(c, bad)
                o = run_impl(c)
                ok, exp = spec_oracle(c, o[1]) if o[0] == "ok" else (False, None)
                found.append(dict(case=c, observed=o[1] if o[0] == "ok" else o, required=exp,
                                  what="resolve does not return the best matching registration"))
                break
        except Exception:
            continue
    return found


def replay(path):
    import json
    d = json.loads(open(path).read())
    if "case" not in d:
        print("broken obligation replay:", json.dumps(d.get("broken"), indent=1)[:3000])
        r = core.build(["Props/%s.vo" % PID])
        print("rebuild:", "ok" if r["ok"] else r["failed"])
        return 0 if r["ok"] else 1
    c = d["case"]
    o = run_impl(c)
    ok, exp = spec_oracle(c, o[1]) if o[0] == "ok" else (False, None)
    print("implementation:", o)
    print("specification :", exp)
    print("property holds on this history" if ok else "property VIOLATED on this history")
    return 0 if ok else 1


def main(tier, seed):
    res = run(tier, seed)
    return core.finish(res, "make -C coq Props/C16.vo && coqc (Print Assumptions audit)",
                       "see suites", search=search,
                       level_note="theorem C16_history quantifies over all hierarchies, chains and histories; "
                                  "the model Model/Registry.v is tied to utype/utils/base.py by the registry suite")
