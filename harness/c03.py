"""C03 — parsing is idempotent; lax constraints converge in one step."""
import random, warnings
from decimal import Decimal
from . import core, decl, gen, genexec, parsesuite, findings

PID = "C03"


def run_idem(case):
    import utype
    from utype.utils.transform import type_transform
    warnings.simplefilter("ignore")
    try:
        T = parsesuite.build(case["spec"])
        o = utype.Options(**case["options"])
    except Exception as e:
        return ("config-error",)
    try:
        r1 = type_transform(case["value"], T, o)
    except Exception as e:
        return ("rejected",)
    f1 = core.freeze(r1)
    try:
        r2 = type_transform(r1, T, o)
    except Exception as e:
        return ("not-idempotent", repr(r1), "re-parse raised %s" % type(e).__name__, f1)
    try:
        same = (r2 == r1) or (r1 != r1)
    except Exception:
        same = True
    if not same:
        return ("not-idempotent", repr(r1), repr(r2), f1)
    return ("idempotent", f1, exact_repr(core.freeze(r2)) == exact_repr(f1), repr(r2))


def exact_repr(v):
    """a text that is equal for two values exactly when they have the same classes and contents position by position
    (True is not 1, 1 is not 1.0, Decimal('1.0') is not Decimal('1.00'); sets compared as sets)"""
    t = type(v)
    if t in (list, tuple):
        return "%s(%s)" % (t.__name__, ",".join(exact_repr(x) for x in v))
    if t in (set, frozenset):
        return "%s{%s}" % (t.__name__, ",".join(sorted(exact_repr(x) for x in v)))
    if t is dict:
        return "dict{%s}" % ",".join("%s:%s" % (exact_repr(k), exact_repr(x)) for k, x in v.items())
    if isinstance(v, core.Inst):
        return "Inst:%s{%s}" % (v.cls.__name__, ",".join("%s:%s" % (k, exact_repr(x)) for k, x in v.items))
    return "%s:%r" % (t.__name__, v)


FRAG_PRELUDE = """
Definition fcase := (options * ty * pyval)%type.
Definition outside (k : fcase) : bool := let '(o, t, w) := k in negb (in_fragment o t w).
"""


def fragment_suite(res, accepted):
    """the theorem C03_reparse_returns_the_result on the implementation: for every accepted case, Coq decides (Spec/Stable.v,
    in_fragment: throw policies, stable type) whether the theorem speaks
    about it; inside the fragment the implementation's second parse must return the first result exactly (same classes, same
    contents) -- no listed finding applies there"""
    import utype
    world = decl.World()
    lines, idx = [], []
    for i, (c, o) in enumerate(accepted):
        f1 = o[1] if o[0] == "idempotent" else o[3]
        try:
            T = parsesuite.build(c["spec"])
            opt = utype.Options(**c["options"])
            enc = world.encoder()
            lines.append("(%s,\n  %s,\n  %s)" % (decl.reflect_options(world, opt), decl.reflect_type(world, T), enc.val(f1)))
            idx.append(i)
        except (core.Unencodable, decl.Unreflectable):
            pass
    per = 400
    shards = ["%s\nDefinition cases : list fcase := [\n%s\n].\nGoal True. idtac \"MISMATCH\". exact I. Qed.\n"
              "Eval vm_compute in (bad_idx outside cases).\nGoal True. idtac \"SKIPS\". exact I. Qed.\nEval vm_compute in 0%%nat.\n"
              % (FRAG_PRELUDE, ";\n".join(lines[s:s + per])) for s in range(0, len(lines), per)]
    b = core.build(["Spec/Stable.vo"])
    if not b["ok"]:
        res.broken.append(dict(kind="proof", name=b["failed"], detail=b["log"][-2000:]))
        return
    inside = []
    for k, (rc, out) in enumerate(core.run_sharded("c03_fragment", ["Parse", "Stable"], shards)):
        got = core.parse_nat_list(out, "MISMATCH") if rc == 0 else None
        if got is None:
            res.broken.append(dict(kind="correspondence", name="reparse-fragment (coqc failed)", detail=out[-1500:]))
            continue
        inside.extend(idx[k * per + j] for j in got)
    bad = 0
    shapes = {}
    for i in inside:
        c, o = accepted[i]
        shapes[c["spec"][0]] = shapes.get(c["spec"][0], 0) + 1
        if o[0] == "not-idempotent":
            bad += 1
            res.violations.append(dict(case=repr(c), observed="first parse %s, second %s" % (o[1], o[2]),
                                       what="re-parsing a parse result does not return an equal value (inside the fragment of theorem C03_reparse_returns_the_result)"))
        elif not o[2]:
            bad += 1
            res.violations.append(dict(case=repr(c), observed="first parse %s, second %s" % (exact_repr(o[1]), o[3]),
                                       what="re-parsing a parse result returns an equal value of other classes (inside the fragment of theorem C03_reparse_returns_the_result, where the model returns the result itself)"))
    res.add_suite("reparse-fragment", len(lines), len(inside),
                  [dict(case=repr(accepted[inside[0]][0]), result="second parse returned the first result exactly")] if inside else [],
                  "the accepted cases of the idem suite classified in Coq by in_fragment (Spec/Stable.v); inside the fragment the "
                  "theorem applies and the implementation must return the first result exactly; non-trivial = inside the fragment",
                  dict(inside_fragment=len(inside), type_shapes_inside=shapes, failures=bad))


def lax_fixed_point(case):
    """lax validators on the implementation: output is a fixed point; on exact domains it passes the strict form"""
    from utype.parser.rule import Constraints
    name, v, b = case["name"], case["value"], case["bound"]
    if not case["lax"] or name == "_parse_decimal":
        return None
    if name == "unique_items" and not isinstance(v, (list, tuple)):
        return None      # the constraint is declared for sequence types only
    f = getattr(Constraints, "lax_" + name)
    try:
        w = f(v, b)
    except Exception:
        return None
    if name in ("length", "max_length", "min_length") and isinstance(v, (int, float, Decimal)) and not isinstance(v, bool) and isinstance(w, str):
        return "lax_%s(%r, %r) = %r: a number came back as text (parsing it again gives a value of another type)" % (name, v, b, w)
    try:
        w2 = f(w, b)
        if not (w2 == w or w != w):
            return "lax_%s(%r, %r) = %r but applied again gives %r" % (name, v, b, w, w2)
    except Exception as e:
        return "lax_%s(%r, %r) = %r but applying it again raises %s" % (name, v, b, w, type(e).__name__)
    if isinstance(b, (float, Decimal)) and b != b:
        return None      # a NaN bound orders nothing: outside the exact domains of the statement
    exact = isinstance(w, (int, Decimal, str, list, tuple)) and not isinstance(w, bool) and \
        not (isinstance(w, Decimal) and not w.is_finite()) and type(w) == type(v)
    if exact and hasattr(Constraints, name) and name not in ("enum",):
        try:
            getattr(Constraints, name)(w, b)
        except Exception as e:
            return "lax_%s(%r, %r) = %r does not satisfy the strict constraint (%s)" % (name, v, b, w, type(e).__name__)
    return None


def carry_finding():
    from utype.parser.rule import Constraints
    w = Constraints.lax_max_digits(Decimal("99.95"), 3)
    try:
        Constraints.max_digits(w, 3)
        return False
    except ValueError:
        return True


def and_finding():
    from utype import Rule
    from utype.parser.rule import LogicalType
    T = LogicalType.combine("&", Rule.annotate(str, constraints=dict(regex="[0-9]+")), float)
    r = T("12")
    try:
        return T(r) != r
    except Exception:
        return True


def xor_finding():
    from utype import Rule, Lax
    from utype.parser.rule import LogicalType
    T = LogicalType.combine("^", Rule.annotate(float, constraints=dict(ge=0, lt=100)), float,
                            Rule.annotate(int, constraints=dict(ge=Lax(3))))
    r = T("f")
    try:
        return T(r) != r
    except Exception:
        return True


def preserve_finding():
    import utype
    from utype import Rule
    from utype.parser.rule import LogicalType
    from utype.utils.transform import type_transform
    U = LogicalType.combine("|", Rule.annotate(tuple, int, bool), Rule.annotate(set, Rule.annotate(int, constraints=dict(const=5))))
    T = Rule.annotate(list, U)
    o = utype.Options(no_data_loss=True, invalid_items="preserve")
    r1 = type_transform([[True, 5, True]], T, o)
    try:
        return type_transform(r1, T, o) != r1
    except Exception:
        return True


def exclude_finding():
    import utype
    from utype import Rule
    from utype.parser.rule import LogicalType
    from utype.utils.transform import type_transform
    digits = Rule.annotate(str, constraints=dict(regex="[0-9]+"))
    U = LogicalType.combine("|", Rule.annotate(dict, digits, Rule.annotate(int, constraints=dict(const=5))),
                            Rule.annotate(dict, Decimal, Rule.annotate(str, constraints=dict(max_length=3))))
    o = utype.Options(no_data_loss=True, invalid_keys="exclude")
    r1 = type_transform({"007": 6, "a1": "5"}, U, o)
    try:
        return type_transform(r1, U, o) != r1
    except Exception:
        return True


def union_shift_finding():
    from utype import Rule, Lax
    from utype.parser.rule import LogicalType
    from typing import List
    U = LogicalType.combine("|", Rule.annotate(list, float), Rule.annotate(frozenset, bool, constraints=dict(length=1)),
                            Rule.annotate(int, constraints=dict(ge=Lax(3))))
    r1 = U("false")
    try:
        return U(r1) != r1
    except Exception:
        return True


def idem_suite(res, tier, seed):
    rng = random.Random(seed * 17 + 303)
    n = 6000 if tier == "quick" else 100000
    cases = [parsesuite.gen_case(rng) if i % 3 else parsesuite.gen_union_case(rng) for i in range(n)]
    cases += [parsesuite.gen_rule_union_case(rng) for _ in range(n // 4)]
    cases += [parsesuite.gen_xor_case(rng) for _ in range(n // 3)]
    outs = core.pool_map(run_idem, cases)
    kinds = {}
    for o in outs:
        kinds[o[0]] = kinds.get(o[0], 0) + 1
    accepted = [(c, o) for c, o in zip(cases, outs) if o[0] in ("idempotent", "not-idempotent")]
    distinct = len({repr((c["spec"], sorted(c["options"].items()), c["value"])) for c, _ in accepted})
    known_hits = {}
    known_cases = []
    for c, o in accepted:
        if o[0] == "not-idempotent":
            fid = findings.matches_any(PID, c)
            if fid:
                known_hits[fid] = known_hits.get(fid, 0) + 1
                known_cases.append((c, o))
            else:
                res.violations.append(dict(case=repr(c), observed="first parse %s, second %s" % (o[1], o[2]),
                                           what="re-parsing a parse result does not return an equal value"))
    # a listed finding is a behaviour of the model too: a failure that matches one is only covered by it if the model agrees with
    # the implementation on that very case
    if known_cases:
        mism = parsesuite.run_suite(res, [c for c, _ in known_cases[:300]], "idem-known",
                                    rule="the idempotence failures that match a listed finding, run through Model/Parse.v: the "
                                         "finding covers them only where model and implementation agree")
        bad_keys = {repr(c) for c, _ in (mism or [])}
        for c, o in known_cases:
            if repr(c) in bad_keys:
                res.violations.append(dict(case=repr(c), observed="first parse %s, second %s (matches a listed finding's shape, but the model disagrees with the implementation here)" % (o[1], o[2]),
                                           what="re-parsing a parse result does not return an equal value"))
    fragment_suite(res, accepted)
    res.add_suite("idem", len(cases), distinct, [dict(case=repr(accepted[0][0]), result=accepted[0][1][0])] if accepted else [],
                  "random (type, options, value); every accepted result is parsed again with the same type and options on "
                  "the implementation and compared with ==; non-trivial = accepted by the first parse; distinct by case",
                  dict(outcomes=kinds, failures_inside_known_findings=known_hits))



XOR_EXTRA_VALUES = ["2020-01-01T00:00:00", "2020-01-01", "P1D", "PT1H30M", "[7]", "[1, 2]", '{"a": 1}', "12", "1.5", "true", "abc", "", b"12",
                    1577836800, 1.5, True, None, [3], {"a": 1}, "1e3", "0", " 5 ", "12:30:00", "3 days"]


def xor_extra_case(i_seed):
    """exclusive-or over three or four plain classes, standard-library ones included (outside the Coq model): the result of a
    successful parse is an exact instance of one argument, so a second parse must return it as it is"""
    import datetime as dt
    from utype.parser.rule import LogicalType, Rule
    from utype.utils.transform import type_transform
    import utype
    warnings.simplefilter("ignore")
    rng = random.Random(i_seed)
    pool = [int, float, Decimal, str, dt.datetime, dt.date, dt.timedelta, dt.time, list, dict, bool, bytes, set, tuple]
    arms = rng.sample(pool, rng.randint(3, 4))
    try:
        T = LogicalType.combine("^", *arms)       # plain classes only: the exact-class shortcut applies to each
    except Exception:
        return None
    o = utype.Options(**rng.choice([{}, {}, {"no_data_loss": True}, {"collect_errors": True}]))
    v = rng.choice(XOR_EXTRA_VALUES)
    try:
        r1 = type_transform(v, T, o)
    except Exception:
        return ("rejected",)
    try:
        r2 = type_transform(r1, T, o)
    except Exception as e:
        return "^ over %s on %r gives %r; parsing that again raises %s: %s" % ([a.__name__ for a in arms], v, r1, type(e).__name__, str(e)[:120])
    if not (r2 == r1 and type(r2) is type(r1)):
        return "^ over %s on %r gives %r; parsing that again gives %r" % ([a.__name__ for a in arms], v, r1, r2)
    return ("idempotent",)


def xor_extra_suite(res, tier, seed):
    n = 3000 if tier == "quick" else 60000
    outs = core.pool_map(xor_extra_case, [seed * 7000003 + i for i in range(n)])
    bad = [o for o in outs if isinstance(o, str)]
    acc = sum(1 for o in outs if o == ("idempotent",))
    res.add_suite("xor-standard-classes", n, acc, [dict(arms="int ^ float ^ datetime", value="2020-01-01T00:00:00", expect="the datetime, twice")],
                  "exclusive-or of 3-4 plain classes (int, float, Decimal, str, datetime, date, timedelta, time, list, dict, bool, bytes, set, "
                  "tuple) on text / number inputs; every accepted result is parsed again; non-trivial = accepted", dict(failures=len(bad)))
    for m in bad[:2]:
        res.violations.append(dict(case=repr(dict(kind="xor-standard-classes")), observed=m, what="re-parsing a parse result does not return an equal value: " + m))


def dataclass_reparse_case(i_seed):
    """data classes: an instance obtained from a successful parse, given again to its class (type_transform, __from__, as a field
    value of another class, as a list element), comes back equal, field by field with the same classes"""
    import utype
    from utype.utils.transform import type_transform
    from . import dyn
    warnings.simplefilter("ignore")
    rng = random.Random(i_seed)
    GOOD = {"int": [1, "2", 3.0], "str": ["a", 5], "PositiveInt": [1, "5"], "List[int]": [[1, "2"], []], "Dict[str, int]": [{"a": "1"}, {}],
            "Tuple[int, str]": [(1, "a"), ["2", 3]], "Union[int, str]": [1, "a"], "bool": [True, "false"], "float": [1.5, "2"],
            "Optional[int]": [None, "3"], "Set[int]": [["1", 1, 2], []], "Decimal": ["1.50", 2]}
    name = dyn.fresh("Rp")
    base = rng.choice(["Schema", "DataClass"])
    fields = [("f%d" % i, rng.choice(list(GOOD))) for i in range(rng.randint(1, 4))]
    src = "class %s(%s):\n" % (name, base) + "".join("    %s: %s\n" % f for f in fields)
    src += "class %sOut(Schema):\n    one: %s\n    many: List[%s] = Field(default_factory=list)\n" % (name, name, name)
    try:
        dyn.declare(src)
    except Exception:
        return None
    K, Out = dyn.get(name), dyn.get(name + "Out")
    data = {n: rng.choice(GOOD[t]) for n, t in fields}
    try:
        inst = K.__from__(data)
    except Exception:
        return ("rejected",)

    def vals(x):
        return exact_repr(core.freeze(x))
    want = vals(inst)
    # (Cls.__from__ takes input data, not instances: parsing "with the same type" is type_transform / the class used as an annotation)
    for how, f in (("type_transform(inst, Cls)", lambda: type_transform(inst, K)),
                   ("Outer(one=inst).one", lambda: Out(one=inst).one), ("Outer(one=inst, many=[inst]).many[0]", lambda: Out(one=inst, many=[inst]).many[0])):
        try:
            r = f()
        except Exception as e:
            return "%s raised %s: %s for an instance obtained from %r\n%s" % (how, type(e).__name__, str(e)[:150], data, src)
        if vals(r) != want:
            return "%s gives %s, the instance was %s\n%s" % (how, vals(r), want, src)
    return ("idempotent",)


def dataclass_reparse_suite(res, tier, seed):
    n = 1200 if tier == "quick" else 20000
    outs = core.pool_map(dataclass_reparse_case, [seed * 9000011 + i for i in range(n)])
    bad = [o for o in outs if isinstance(o, str)]
    res.add_suite("dataclass-reparse", n, sum(1 for o in outs if o == ("idempotent",)),
                  [dict(cls="class K(Schema): f0: List[int]; f1: Decimal", data={"f0": [1, "2"], "f1": "1.50"}, expect="the instance, three ways")],
                  "Schema / DataClass classes of 1-4 typed fields; an instance from a successful parse is parsed again through "
                  "type_transform, a field of another class and a list element: equal field by field with the same classes",
                  dict(failures=len(bad)))
    for m in bad[:2]:
        res.violations.append(dict(case=repr(dict(kind="dataclass-reparse")), observed=m, what="re-parsing a data-class instance does not return an equal instance: " + m.split("\n")[0]))

def carried_out(c):
    """the listed finding's second form: the carry left an integer part with more digits than the bound allows (or the bound
    is 0), so no rounding of decimals can help and a second application can only raise"""
    from utype.parser.rule import Constraints
    if c["bound"] == 0:
        return True
    try:
        w = Constraints.lax_max_digits(c["value"], c["bound"])
        return len(str(abs(int(w)))) > c["bound"]
    except Exception:
        return False


def lax_suite(res, tier, seed):
    rng = random.Random(seed * 13 + 77)
    n = 4000 if tier == "quick" else 60000
    cases = []
    while len(cases) < n:
        c = genexec.gen_case(rng)
        if c["lax"]:
            cases.append(c)
    bad = []
    for c in cases:
        msg = lax_fixed_point(c)
        if msg:
            if c["name"] == "max_digits" and ("does not satisfy the strict constraint" in msg or ("again raises" in msg and carried_out(c))):
                continue      # exactly the listed finding C03-carry (a carry adds a digit; max_digits=0): replayed separately.
                              # any other failure of lax max_digits (a second application raising for a positive bound,
                              # a different value the second time) is reported
            bad.append((c, msg))
    res.add_suite("lax-fixed-point", len(cases), len({repr((c["name"], c["value"], c["bound"])) for c in cases}),
                  [repr(cases[0])], "lax validators of the implementation applied twice; on exact domains the output is "
                  "also given to the strict validator", dict(failures=len(bad)))
    for c, msg in bad[:3]:
        res.violations.append(dict(case=repr(c), observed=msg, what=msg))


def main(tier, seed):
    res = core.Result(PID, tier, seed)
    core.prove(res, PID)
    genexec.run_suite(res, tier, seed)
    lax_suite(res, tier, seed)
    idem_suite(res, tier, seed)
    xor_extra_suite(res, tier, seed)
    dataclass_reparse_suite(res, tier, seed)
    rng = random.Random(seed * 29 + 5)
    n = 3000 if tier == "quick" else 60000
    cases = [parsesuite.gen_case(rng) if i % 2 else parsesuite.gen_union_case(rng) for i in range(n)]
    cases += [parsesuite.gen_rule_union_case(rng) for _ in range(n)]
    mism = parsesuite.run_suite(res, cases, "parse")
    # a listed finding is a behaviour the model has too: where the implementation leaves the model, a failure of idempotence is
    # a different violation, whatever the matchers say
    if mism:
        outs = core.pool_map(run_idem, [c for c, _ in mism[:400]])
        for (c, _), o in zip(mism, outs):
            if o[0] == "not-idempotent":
                res.violations.append(dict(case=repr(c), observed="first parse %s, second %s (the model disagrees with the implementation on this case)" % (o[1], o[2]),
                                           what="re-parsing a parse result does not return an equal value"))
    findings.replay_all(res, PID, {"C03-carry": carry_finding, "C03-and-hetero": and_finding, "C03-xor-output": xor_finding, "C03-preserve": preserve_finding, "C03-exclude": exclude_finding,
                                    "C03-union-stage-shift": union_shift_finding})
    return core.finish(res, "make -C coq Props/C03.vo && coqc (Print Assumptions audit)", "see suites", search=None,
                       level_note="lax validators: theorems on the translated source (Gen/Constraints.v). Idempotence of whole types is a "
                                  "theorem for the fragment `stable` of Spec/Stable.v (C03_reparse_returns_the_result; the "
                                  "reparse-fragment suite classifies every generated case in Coq and checks the implementation "
                                  "inside it); outside it (&, unions of constrained types, lax "
                                  "constraints inside types, exclude / preserve policies) it is carried by the parse "
                                  "correspondence and the idempotence oracle on the implementation (partial)")


def replay(path):
    import json
    d = json.loads(open(path).read())
    if "case" not in d:
        print(json.dumps(d, indent=1)[:4000])
        r = core.build(["Props/%s.vo" % PID])
        return 0 if r["ok"] else 1
    c = eval(d["case"], {"Decimal": Decimal, "inf": float("inf"), "nan": float("nan")})
    if "spec" in c:
        o = run_idem(c)
        print("case:", c, "\n->", o)
        return 1 if o[0] == "not-idempotent" else 0
    msg = lax_fixed_point(c)
    print("case:", c, "\n->", msg or "fixed point")
    return 1 if msg else 0
