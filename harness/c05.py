"""C05 — data-class parsing implements the declared field contract."""
import random, warnings
from . import core, decl, dyn, fieldgen, dcsuite, parsesuite, findings

PID = "C05"

ROPTS = [None, None, None, dict(mode="r"), dict(mode="w"), dict(mode="a"), dict(ignore_required=True), dict(no_default=True),
         dict(addition=True), dict(addition=False), dict(defer_default=True), dict(force_default=0),
         dict(max_params=2), dict(min_params=2), dict(collect_errors=True), dict(invalid_values="exclude")]


def gen_cases(rng, ncls, per):
    cases, srcs = [], {}
    for _ in range(ncls):
        name, src, fields, okw = fieldgen.declare(rng)
        srcs[name] = src
        for _ in range(per):
            data = fieldgen.rand_input(rng, fields)
            c = dict(cls=name, ropts=rng.choice(ROPTS), data=data)
            if c["ropts"] is None and rng.random() < 0.15 and all(isinstance(k, str) and k.isidentifier() for k in data):
                c["entry"] = "init"
            cases.append(c)
    pairs = fieldgen.feature_pairs()
    rng.shuffle(pairs)
    for i, feats in enumerate(pairs * (2 if ncls < 1000 else 8)):
        try:
            name, src, fields, okw = fieldgen.declare_small(rng, first_feats=feats, forced_dfs=bool(i % 2))
        except RuntimeError:
            continue
        srcs[name] = src
        for data in fieldgen.state_inputs(rng, fields, limit=30):
            cases.append(dict(cls=name, ropts=None, data=data))
    return cases, srcs


CONTRACT_PRELUDE = """
Definition nodupk (d : sdata) : bool := nodupb (map fst d).
Definition oeqb (a b : option pyval) : bool :=
  match a, b with Some x, Some y => val_eqb x y | None, None => true | _, _ => false end.
(* 0: hypotheses hold, model and contract agree; 1: declaration not well-formed; 2: hypotheses hold, they differ;
   3: conflicts ignored; 4: values not coherent; 5: not a string-keyed mapping *)
Definition ctest (k : nat * option options * pyval) : nat :=
  let '(c, ro, v) := k in
  match DD c, v with
  | Some C0, PDict kvs =>
      match str_keys kvs with
      | Some data =>
          let C := match ro with
                   | Some o => {| c_fields := c_fields C0; c_alias_map := c_alias_map C0; c_ci_names := c_ci_names C0;
                                  c_options := o; c_dfs := c_dfs C0; c_exclude_vars := c_exclude_vars C0;
                                  c_dict_based := c_dict_based C0 |}
                   | None => C0 end in
          let o := nested_options C default_options in
          let tr := transform RE DD 60 in
          if negb (wf_cdecl C) then 1%nat
          else if o_ignore_alias_conflicts o then 3%nat
          else if negb (coherentb C data && nodupk data) then 4%nat
          else match in_fresh (parse_data tr C o 1 data) with
               | Ok r => if contract_ok tr C o 1 data
                            && forallb (fun x => oeqb (assoc x r) (contract_val tr C o 1 data x))
                                 (map fst r ++ map fst data ++ map (fun kf => f_name (snd kf)) (c_fields C))
                         then 0%nat else 2%nat
               | _ => if contract_ok tr C o 1 data then 2%nat else 0%nat
               end
      | None => 5%nat
      end
  | _, _ => 5%nat
  end.
"""


def contract_suite(res, cases, per=250):
    """the executable contract of Spec/FieldSpec.v against the model on the generated cases, with the hypotheses of
    C05_parse_data_implements_contract evaluated in Coq"""
    import utype
    world = decl.World()
    world.encoder = lambda: dcsuite.InstEncoder(classes=dict(world.classes), objects=world.objects)
    lines, strs = [], set()
    for c in cases:
        try:
            cid = world.cid(dyn.get(c["cls"]))
            ro = "None" if c.get("ropts") is None else "(Some %s)" % decl.reflect_options(world, utype.Options(**c["ropts"]))
            enc = world.encoder()
            lines.append("(%d%%nat, %s, %s)" % (cid, ro, enc.val(c["data"])))
            parsesuite.strings_in(c["data"], strs)
        except (core.Unencodable, decl.Unreflectable):
            pass
        except Exception:
            pass
    table = parsesuite.regex_oracle([("[0-9]+", s) for s in strs])
    if not core.build(["Props/C05.vo"])["ok"]:
        return
    shards = ["Definition RE := %s.\nDefinition DD : decls := %s.\n%s\nDefinition cases : list (nat * option options * pyval) := [\n%s\n].\n"
              "Goal True. idtac \"CT\". exact I. Qed.\nEval vm_compute in (map ctest cases).\n"
              % (table, world.decls_term_for(lines[s:s + per]), CONTRACT_PRELUDE, ";\n".join(lines[s:s + per])) for s in range(0, len(lines), per)]
    hist = {}
    for rc, out in core.run_sharded("c05ct", ["Parse", "Verdict", "FieldSpec", "FieldProofs"], shards):
        vals = core.parse_nat_list(out, "CT") if rc == 0 else None
        if vals is None:
            res.broken.append(dict(kind="correspondence", name="contract (coqc failed)", detail=out[-1500:]))
            continue
        for v in vals:
            hist[v] = hist.get(v, 0) + 1
    names = {0: "hypotheses_hold_and_contract_agrees", 1: "declaration_not_wf", 2: "hypotheses_hold_but_contract_differs",
             3: "conflicts_ignored", 4: "values_not_coherent", 5: "not_a_str_mapping"}
    res.add_suite("contract", sum(hist.values()), hist.get(0, 0), [lines[0] if lines else ""],
                  "contract_ok / contract_val of Spec/FieldSpec.v evaluated in Coq next to parse_data of the model, on the same "
                  "reflected classes, runtime options and inputs; wf_cdecl / coherentb / distinct keys evaluated as well",
                  {names[k]: v for k, v in hist.items()})
    if hist.get(1):
        res.broken.append(dict(kind="correspondence", name="wf_cdecl",
                               detail="%d reflected declarations do not satisfy wf_cdecl: the theorems do not apply to them" % hist[1]))
    if hist.get(2):
        res.broken.append(dict(kind="proof", name="C05_parse_data_implements_contract",
                               detail="contract and model differ under the hypotheses on %d cases" % hist[2]))


def ci_case(i_seed):
    """case-insensitivity as declared: Field(case_insensitive=True / False) decides, the class option only when the field says
    nothing.  The reflected class carries the parser's own derived name tables, so this is judged from the declaration text."""
    import warnings
    warnings.simplefilter("ignore")
    rng = random.Random(i_seed)
    t = dyn.fresh("Ci")
    cls_ci = rng.choice([None, True, False])
    add = rng.choice([None, None, True, False])
    okw = {}
    if cls_ci is not None: okw["case_insensitive"] = cls_ci
    if add is not None: okw["addition"] = add
    if rng.random() < 0.3: okw["data_first_search"] = rng.choice([True, False])
    lines = ["class %s(%s):" % (t, rng.choice(["Schema", "DataClass"]))]
    if okw:
        lines.append("    __options__ = Options(%s)" % ", ".join("%s=%r" % kv for kv in okw.items()))
    fields = []
    for fn in ["name", "token", "qty"][:rng.randint(1, 3)]:
        fci = rng.choice([None, None, True, False])
        alias = fn + "Key" if rng.random() < 0.3 else None
        kw = ["default='dflt'"]
        if fci is not None: kw.append("case_insensitive=%r" % fci)
        if alias: kw.append("alias_from=[%r]" % alias)
        lines.append("    %s: str = Field(%s)" % (fn, ", ".join(kw)))
        fields.append((fn, fci, alias))
    src = "\n".join(lines) + "\n"
    try:
        dyn.declare(src)
    except Exception:
        return None
    K = dyn.get(t)
    fn, fci, alias = rng.choice(fields)
    base = rng.choice([fn] + ([alias] if alias else []))
    key = rng.choice([base.upper(), base.capitalize(), base.swapcase()])
    if key == base:
        return None
    expect_ci = fci if fci is not None else bool(cls_ci)
    try:
        inst = K.__from__({key: "given"})
        got = ("ok", getattr(inst, fn, "<unset>"))
    except Exception as e:
        got = ("err", type(e).__name__)
    if expect_ci:
        ok = got == ("ok", "given")
    elif add is False:
        ok = got[0] == "err"
    else:
        ok = got == ("ok", "dflt")
    if not ok:
        return "%s\ninput {%r: 'given'}: field %r is %scase-insensitive by declaration, got %r" % (src, key, fn, "" if expect_ci else "not ", got)
    return ("ok", expect_ci)


def ci_suite(res, tier, seed):
    n = 2000 if tier == "quick" else 30000
    outs = core.pool_map(ci_case, [seed * 1000193 + i for i in range(n)])
    bad = [o for o in outs if isinstance(o, str)]
    res.add_suite("declared-case-insensitivity", n, n, ["seeded: 1-3 str fields with case_insensitive True / False / unset, optional alias_from, class option True / False / unset"],
                  "a key given in another letter case matches a field exactly when the field's own case_insensitive says so, or, when it "
                  "says nothing, the class option does (judged from the declaration text, not from the parser's derived name tables, under "
                  "both lookup strategies and every addition policy)", dict(failures=len(bad)))
    for o in bad[:3]:
        res.violations.append(dict(case=repr(dict(kind="declared-ci")), observed=o, what=o))


def main(tier, seed):
    warnings.simplefilter("ignore")
    res = core.Result(PID, tier, seed)
    core.prove(res, PID)
    rng = random.Random(seed * 127 + 5)
    ncls, per = (120, 8) if tier == "quick" else (900, 10)
    cases, srcs = gen_cases(rng, ncls, per)
    r = dcsuite.run_suite(res, cases, "fields",
                          rule="random Schema / DataClass declarations over every Field parameter (default, default_factory, "
                               "defer_default, alias, alias_from, case_insensitive, no_input, no_output, mode / readonly / writeonly, "
                               "required modes, dependencies, on_error) and class Options (ignore_required, no_default, force_default, "
                               "defer_default, ignore_alias_conflicts, addition, min/max_params, mode, case_insensitive, both strategies, "
                               "collect_errors, invalid_values), runtime Options, __from__ and __init__; inputs over names, aliases, "
                               "letter-case variants, repeated names, missing fields, invalid values, extra keys",
                          extra=dict(classes=ncls))
    mism = r[0] if r else []
    contract_suite(res, cases)
    for c, o in mism[:3]:
        res.violations.append(dict(case=repr(dict(src=srcs.get(c["cls"], ""), ropts=c.get("ropts"), data=c["data"], entry=c.get("entry"))),
                                   observed=repr(o)[:600],
                                   what="the implementation departs from the model that is proved to implement the field contract"))
    ci_suite(res, tier, seed)
    return core.finish(res, "make -C coq Props/C05.vo && coqc (Print Assumptions audit)", "see suites", search=None,
                       level_note="the contract theorem is about parse_data of Model/Parse.v (tied by the fields suite) for declarations "
                                  "satisfying wf_cdecl (what generate_aliases / apply_fields guarantee; evaluated on every reflected class), "
                                  "conflicts not ignored, repeated values coherent; default copies are values (aliasing is C19's subject); "
                                  "discriminator fields, typed additions, property fields and function parsers are not modelled")


def replay(path):
    import json
    d = json.loads(open(path).read())
    if "case" not in d:
        print(json.dumps(d, indent=1)[:4000])
        r = core.build(["Props/%s.vo" % PID])
        return 0 if r["ok"] else 1
    c = eval(d["case"], {"inf": float("inf"), "nan": float("nan")})
    import re
    name = dyn.fresh("Rp")
    src = re.sub(r"class \w+\(", "class %s(" % name, c["src"], 1)
    dyn.declare(src)
    res = core.Result(PID, "quick", 0)
    case = dict(cls=name, ropts=c.get("ropts"), data=c["data"])
    if c.get("entry"):
        case["entry"] = c["entry"]
    r = dcsuite.run_suite(res, [case], "replay")
    mism = r[0] if r else []
    print("case:", c)
    print("implementation:", r[1][0] if r else None)
    print("->", "implementation and model differ" if mism else "implementation and model agree on this case")
    return 1 if mism else 0
