"""Declarations on both sides: random utype types / data classes / options built through the public
API, and `reflect`, which reads the attributes the parsers use at run time off the built objects and
prints them as the model's `ty` / `cdecl` / `options` terms."""
import random, enum
from decimal import Decimal
from . import core, gen

PRIMS = {"NoneType": "TNone", "bool": "TBool", "int": "TInt", "float": "TFloat", "Decimal": "TDecimal",
         "str": "TStr", "bytes": "TBytes", "list": "TList", "tuple": "TTuple", "set": "TSet",
         "frozenset": "TFrozen", "dict": "TDict"}


class World:
    """Numbering of data classes / opaque classes met while reflecting, and their declarations."""

    def __init__(self):
        self.classes = {}     # python class -> id
        self.decls = {}       # id -> coq cdecl text
        self.opaque = {}      # python class -> id
        self.objects = {}     # id(obj) -> tag
        self.pending = []

    def encoder(self):
        cl = dict(self.classes)
        return core.Encoder(classes=cl, objects=self.objects)

    def cid(self, cls):
        if cls not in self.classes:
            self.classes[cls] = len(self.classes)
            self.decls[self.classes[cls]] = None
            self.decls[self.classes[cls]] = reflect_class(self, cls)
        return self.classes[cls]

    def decls_term_for(self, chunk):
        """the declarations the given case lines reach: class ids at the head of a line, under TData / PInst anywhere in the
        lines, and transitively the classes those declarations mention (a shard then costs what its own cases need, not what
        the whole suite declared)"""
        import re
        text = "\n".join(chunk)
        todo = [int(x) for x in re.findall(r"(?m)^\((\d+)%nat", text)]
        todo += [int(x) for x in re.findall(r"(?:TData|PInst) \(?(\d+)", text)]
        need = set()
        while todo:
            i = todo.pop()
            if i in need:
                continue
            need.add(i)
            d = self.decls.get(i)
            if d:
                todo.extend(int(x) for x in re.findall(r"(?:TData|PInst) \(?(\d+)", d))
        arms = "".join("  | %d%%nat => Some (%s)\n" % (i, self.decls[i]) for i in sorted(need) if self.decls.get(i))
        return "(fun c : nat => match c with\n%s  | _ => None end)" % arms

    def decls_term(self):
        arms = "".join("  | %d%%nat => Some (%s)\n" % (i, d) for i, d in sorted(self.decls.items()) if d)
        return "(fun c : nat => match c with\n%s  | _ => None end)" % arms


class Unreflectable(Exception):
    pass


def coq_bool(b):
    return "true" if b else "false"


def coq_opt(x, f=str):
    return "None" if x is None else "(Some %s)" % f(x)


def coq_optz(x):
    return "None" if x is None else "(Some (%d))" % x


def coq_list(xs):
    return "[" + "; ".join(xs) + "]"


def reflect_type(world, t):
    from utype.parser.rule import LogicalType, Rule
    from utype.parser.cls import ClassParser
    from typing import ForwardRef
    import typing
    if t is None:
        raise Unreflectable("None type")
    if isinstance(t, ForwardRef):
        if t.__forward_evaluated__:
            return reflect_type(world, t.__forward_value__)
        raise Unreflectable("unevaluated ForwardRef")
    if t is typing.Any:
        return "TAny"
    if isinstance(t, LogicalType):
        if t.combinator:
            op = {"&": "CAnd", "|": "COr", "^": "CXor", "~": "CNot"}[t.combinator]
            return "(TLogic %s %s)" % (op, coq_list([reflect_type(world, a) for a in t.args]))
        if isinstance(getattr(t, "__parser__", None), ClassParser):
            return "(TData %d%%nat)" % world.cid(t)
        # a Rule subclass
        if getattr(t, "__applied__", False):
            raise Unreflectable("@apply type")
        if getattr(t, "__abstract__", False):
            raise Unreflectable("abstract origin")
        if t.__dict__.get("pre_validate") or t.__dict__.get("post_validate"):
            raise Unreflectable("custom validate hooks")
        origin = t.__origin__
        args = t.__args__ or ()
        vals = []
        for key, bound, func in t.__validators__:
            lax = func.__name__.startswith("lax_")
            name = func.__name__[4:] if lax else func.__name__
            if name != key:
                raise Unreflectable("custom validator")
            vals.append("(%s, %s, %s)" % (core.coq_str(key), world.encoder().val(bound), coq_bool(lax)))
        if any(a is None for a in args):
            raise Unreflectable("None arg")
        return "(TRule %s %s %s %s %s %s %s)" % (
            coq_opt(origin, lambda o: reflect_type(world, o)) if origin else "None",
            coq_list([reflect_type(world, a) for a in args]),
            coq_bool(bool(t.__ellipsis_args__)), coq_list(vals),
            coq_opt(t.contains, lambda c: reflect_type(world, c)) if t.contains else "None",
            coq_optz(t.min_contains), coq_optz(t.max_contains))
    if isinstance(t, type):
        if isinstance(getattr(t, "__dict__", {}).get("__parser__", None), ClassParser) or \
                isinstance(getattr(t, "__parser__", None), ClassParser):
            return "(TData %d%%nat)" % world.cid(t)
        if t.__name__ in PRIMS and t.__module__ in ("builtins", "decimal"):
            return "(TPrim %s)" % PRIMS[t.__name__]
        if t in world.opaque:
            return "(TPrim (TOpaque %d%%nat))" % world.opaque[t]
    raise Unreflectable("type %r" % (t,))


def reflect_flag(x):
    if x is True or x is False:
        return "(FBool %s)" % coq_bool(x)
    if x is None:
        return "(FBool false)"
    if isinstance(x, str):
        return "(FModes %s)" % core.coq_str(x)
    raise Unreflectable("flag %r" % (x,))


POLICY = {"throw": "Throw", "exclude": "Exclude", "preserve": "Preserve"}


def reflect_options(world, o):
    from utype.utils.datastructures import unprovided
    from utype.utils.transform import TypeTransformer
    if o.transformer_cls is not TypeTransformer:
        raise Unreflectable("custom transformer")
    if o.addition not in (None, True, False):
        raise Unreflectable("type-valued addition")
    if o.alias_generator or o.alias_from_generator:
        pass
    if isinstance(o.ignore_constraints, (list, tuple)):
        raise Unreflectable("ignore_constraints list")
    mode = o.mode
    return ("{| o_collect_errors := %s; o_max_errors := %s; o_max_depth := %s; o_max_params := %s; o_min_params := %s;\n"
            "   o_addition := %s; o_invalid_items := %s; o_invalid_keys := %s; o_invalid_values := %s; o_unresolved := %s;\n"
            "   o_no_explicit_cast := %s; o_no_data_loss := %s; o_ignore_constraints := %s; o_ignore_alias_conflicts := %s;\n"
            "   o_ignore_required := %s; o_force_default := %s; o_no_default := %s; o_defer_default := %s;\n"
            "   o_data_first_search := %s; o_mode := %s; o_allow_subclasses := %s; o_case_insensitive := %s;\n"
            "   o_override := %s; o_vacuum := %s |}" % (
                coq_bool(bool(o.collect_errors)), coq_optz(o.max_errors), coq_optz(o.max_depth),
                coq_optz(o.max_params), coq_optz(o.min_params),
                coq_opt(o.addition, coq_bool), POLICY[o.invalid_items], POLICY[o.invalid_keys],
                POLICY[o.invalid_values], {"throw": "UThrow", "init": "UInit", "ignore": "UIgnore"}[o.unresolved_types],
                coq_bool(bool(o.no_explicit_cast)), coq_bool(bool(o.no_data_loss)), coq_bool(bool(o.ignore_constraints)),
                coq_bool(bool(o.ignore_alias_conflicts)), coq_bool(bool(o.ignore_required)),
                ("None" if unprovided(o.force_default) else "(Some %s)" % world.encoder().val(o.force_default)),
                coq_bool(bool(o.no_default)), coq_bool(bool(o.defer_default)),
                coq_opt(o.data_first_search, coq_bool), coq_opt(mode, core.coq_str),
                coq_bool(bool(o.allow_subclasses)), coq_bool(bool(o.case_insensitive)),
                coq_bool(bool(o.override)), coq_bool(bool(o.vacuum))))


def reflect_field(world, f):
    from utype.utils.datastructures import unprovided
    if f.property or f.final or f.discriminator_map or callable(f.no_input) or callable(f.no_output):
        raise Unreflectable("property/final/discriminator/callable flags")
    if f.output_type is not None and f.output_type is not f.type:
        pass
    default = None
    has_default = False
    if not unprovided(f.default):
        default, has_default = f.default, True
    elif f.default_factory:
        default, has_default = f.default_factory(), True
    req = f.required
    if isinstance(req, (list, tuple, set)):
        raise Unreflectable("required list")
    on_error = POLICY.get(f.on_error) if f.on_error else None
    mode = f.mode if isinstance(f.mode, str) or f.mode is None else None
    return ("{| f_name := %s; f_attname := %s; f_all_aliases := %s; f_type := %s; f_required := %s;\n"
            "      f_default := %s; f_defer_default := %s; f_no_input := %s; f_no_output := %s; f_mode := %s;\n"
            "      f_dependencies := %s; f_on_error := %s; f_immutable := %s |}" % (
                core.coq_str(f.name), core.coq_str(f.attname), coq_list([core.coq_str(a) for a in f.all_aliases]),
                "None" if f.type is None else "(Some %s)" % reflect_type(world, f.type),
                reflect_flag(req), "(Some %s)" % world.encoder().val(default) if has_default else "None",
                coq_bool(bool(f.defer_default)), reflect_flag(f.no_input), reflect_flag(f.no_output),
                coq_opt(mode, core.coq_str), coq_list([core.coq_str(d) for d in sorted(f.dependencies or [])]),
                coq_opt(on_error), coq_bool(bool(f.immutable))))


def reflect_class(world, cls):
    p = cls.__parser__
    p.resolve_forward_refs()
    if p.forward_refs:
        raise Unreflectable("unresolved forward refs")
    if p.addition_type:
        raise Unreflectable("addition type")
    if p.property_fields:
        raise Unreflectable("property fields")
    fields = coq_list(["(%s, %s)" % (core.coq_str(k), reflect_field(world, f)) for k, f in p.fields.items()])
    amap = coq_list(["(%s, %s)" % (core.coq_str(a), core.coq_str(k)) for a, k in p.field_alias_map.items()])
    ci = coq_list([core.coq_str(x) for x in sorted(p.case_insensitive_names)])
    return ("{| c_fields := %s;\n   c_alias_map := %s; c_ci_names := %s;\n   c_options := %s;\n   c_dfs := %s; c_exclude_vars := %s; c_dict_based := %s |}"
            % (fields, amap, ci, reflect_options(world, p.options), coq_bool(bool(p.data_first_search)),
               coq_list([core.coq_str(x) for x in sorted(p.exclude_vars) if all(32 <= ord(c) < 127 for c in x)]),
               coq_bool(issubclass(cls, dict))))


# ------------------------------------------------------------------ random declarations
def rand_options(rng, parse_only=True):
    import utype
    kw = {}
    if rng.random() < 0.25:
        kw["no_explicit_cast"] = True
    if rng.random() < 0.25:
        kw["no_data_loss"] = True
    if rng.random() < 0.3:
        kw["collect_errors"] = True
        if rng.random() < 0.4:
            kw["max_errors"] = rng.choice([1, 2, 3])
    for k in ("invalid_items", "invalid_keys", "invalid_values"):
        if rng.random() < 0.15:
            kw[k] = rng.choice(["exclude", "preserve"])
    if rng.random() < 0.1:
        kw["addition"] = rng.choice([True, False])
    if rng.random() < 0.05:
        kw["ignore_constraints"] = True
    if rng.random() < 0.15:
        kw["max_depth"] = rng.choice([1, 2, 3])
    return kw


LEAVES = ["int", "str", "float", "bool", "none", "decimal", "posint", "month", "digits", "const5", "enum_ab",
          "shortstr", "bfloat", "laxint", "bytes"]


def build_leaf(name):
    from utype import Rule, Lax
    import utype.types as ut
    if name == "int":
        return int
    if name == "str":
        return str
    if name == "float":
        return float
    if name == "bool":
        return bool
    if name == "none":
        return type(None)
    if name == "decimal":
        return Decimal
    if name == "bytes":
        return bytes
    if name == "posint":
        return ut.PositiveInt
    if name == "month":
        return ut.Month
    if name == "digits":
        return Rule.annotate(str, constraints=dict(regex="[0-9]+"))
    if name == "const5":
        return Rule.annotate(int, constraints=dict(const=5))
    if name == "enum_ab":
        return Rule.annotate(str, constraints=dict(enum=["a", "b"]))
    if name == "shortstr":
        return Rule.annotate(str, constraints=dict(max_length=3))
    if name == "bfloat":
        return Rule.annotate(float, constraints=dict(ge=0, lt=100))
    if name == "laxint":
        return Rule.annotate(int, constraints=dict(ge=Lax(3), le=Lax(10)))
    raise KeyError(name)


def rand_spec(rng, depth):
    """abstract spec of a type: nested tuples"""
    k = rng.random()
    if depth <= 0 or k < 0.35:
        return ("leaf", rng.choice(LEAVES))
    if k < 0.5:
        return ("list", rand_spec(rng, depth - 1), rand_cons(rng, "list"))
    if k < 0.56:
        if rng.random() < 0.5:
            return ("set", rand_spec(rng, 0))
        return ("setc", rng.choice(["set", "frozenset"]), rand_spec(rng, 0),
                rng.choice([{"min_length": 2}, {"length": 2}, {"max_length": 1}, {"min_length": 1}, {"length": 1}]))
    if k < 0.64:
        return ("tuple", [rand_spec(rng, depth - 1) for _ in range(rng.randint(1, 3))])
    if k < 0.69:
        return ("vtuple", rand_spec(rng, depth - 1))
    if k < 0.77:
        return ("dict", rand_spec(rng, 0), rand_spec(rng, depth - 1))
    if k < 0.9:
        op = rng.choice(["|", "|", "^", "&"])
        return ("logic", op, [rand_spec(rng, depth - 1) for _ in range(rng.randint(2, 3))])
    if k < 0.95:
        return ("not", rand_spec(rng, depth - 1))
    return ("optional", rand_spec(rng, depth - 1))


def rand_cons(rng, kind):
    if rng.random() < 0.6:
        return {}
    c = {}
    if kind == "list":
        ch = rng.random()
        if ch < 0.3:
            c["max_length"] = rng.choice([1, 2, 3])
        elif ch < 0.5:
            c["min_length"] = rng.choice([1, 2])
        elif ch < 0.7:
            c["unique_items"] = True
        elif ch < 0.85:
            c["contains"] = "int"
            if rng.random() < 0.5:
                c["max_contains"] = rng.choice([1, 2])
        else:
            c["length"] = rng.choice([1, 2])
    return c


def build_spec(spec):
    from utype import Rule
    from utype.parser.rule import LogicalType
    from typing import List, Set, Tuple, Dict, Optional
    k = spec[0]
    if k == "leaf":
        return build_leaf(spec[1])
    if k == "list":
        inner = build_spec(spec[1])
        cons = dict(spec[2])
        if "contains" in cons:
            cons["contains"] = build_leaf(cons["contains"])
        return Rule.annotate(list, inner, constraints=cons)
    if k == "set":
        return Rule.annotate(set, build_spec(spec[1]))
    if k == "setc":
        return Rule.annotate(set if spec[1] == "set" else frozenset, build_spec(spec[2]), constraints=dict(spec[3]))
    if k == "tuple":
        return Rule.annotate(tuple, *[build_spec(s) for s in spec[1]])
    if k == "vtuple":
        return Rule.annotate(tuple, build_spec(spec[1]), ...)
    if k == "dict":
        return Rule.annotate(dict, build_spec(spec[1]), build_spec(spec[2]))
    if k == "logic":
        return LogicalType.combine(spec[1], *[build_spec(s) for s in spec[2]])
    if k == "not":
        return LogicalType.combine("~", build_spec(spec[1]))
    if k == "optional":
        return LogicalType.combine("|", build_spec(spec[1]), None)
    raise KeyError(k)


def valid_value(rng, spec, depth=3):
    """a value that is likely (not certainly) accepted by the spec"""
    k = spec[0]
    if k == "leaf":
        n = spec[1]
        return {
            "int": lambda: rng.choice([0, 1, 5, -3, 12, 13, 100, "7", 2.0, "12", True, Decimal("4")]),
            "str": lambda: rng.choice(["a", "abc", "", "12", 5, "abcd", b"xy"]),
            "float": lambda: rng.choice([1.5, 0.0, 2, "2.5", 99.5, 100.0, -1.0, Decimal("1.5")]),
            "bool": lambda: rng.choice([True, False, 0, 1, "true", "no", "t"]),
            "none": lambda: rng.choice([None, None, "null", "none"]),
            "decimal": lambda: rng.choice([Decimal("1.5"), "2.50", 3, 1.5]),
            "bytes": lambda: rng.choice([b"ab", "ab", b""]),
            "posint": lambda: rng.choice([1, 5, 12, 13, "7", 2.0, 0, -1]),
            "month": lambda: rng.choice([1, 12, 13, "5", 0, 6.0]),
            "digits": lambda: rng.choice(["12", "5", "a1", 12, "007"]),
            "const5": lambda: rng.choice([5, "5", 5.0, 6, True]),
            "enum_ab": lambda: rng.choice(["a", "b", "c", b"a"]),
            "shortstr": lambda: rng.choice(["ab", "abc", "abcd", 12, 12345]),
            "bfloat": lambda: rng.choice([0, 0.0, 99.5, 100, "50", -0.5, 100.0]),
            "laxint": lambda: rng.choice([1, 3, 5, 10, 11, "2", 20.0]),
        }[n]()
    if depth <= 0:
        return gen.scalar(rng)
    if k == "list":
        return [valid_value(rng, spec[1], depth - 1) for _ in range(rng.randint(0, 3))]
    if k == "set":
        xs = [valid_value(rng, spec[1], depth - 1) for _ in range(rng.randint(0, 3))]
        try:
            return set(xs) if rng.random() < 0.5 else xs
        except TypeError:
            return xs
    if k == "setc":
        # elements that are distinct before conversion and may collide after it
        base = valid_value(rng, spec[2], depth - 1)
        variants = [base]
        for f in (str, float, lambda x: int(x), lambda x: Decimal(str(x)), lambda x: str(x).encode(), lambda x: "0" + str(x)):
            try:
                variants.append(f(base))
            except Exception:
                pass
        xs = [rng.choice(variants) for _ in range(rng.randint(1, 3))]
        if rng.random() < 0.4:
            xs.append(valid_value(rng, spec[2], depth - 1))
        return xs if rng.random() < 0.7 else tuple(xs)
    if k == "tuple":
        xs = [valid_value(rng, s, depth - 1) for s in spec[1]]
        r = rng.random()
        if r < 0.12 and xs:
            xs = xs[:-1]
        elif r < 0.24:
            xs.append(gen.scalar(rng))
        return tuple(xs) if rng.random() < 0.6 else xs
    if k == "vtuple":
        xs = [valid_value(rng, spec[1], depth - 1) for _ in range(rng.randint(0, 3))]
        return tuple(xs) if rng.random() < 0.6 else xs
    if k == "dict":
        d = {}
        for _ in range(rng.randint(0, 3)):
            kk = valid_value(rng, spec[1], 0)
            try:
                d[kk] = valid_value(rng, spec[2], depth - 1)
            except TypeError:
                pass
        return d
    if k == "logic":
        return valid_value(rng, rng.choice(spec[2]), depth)
    if k == "not":
        return gen.scalar(rng) if rng.random() < 0.7 else valid_value(rng, spec[1], depth)
    if k == "optional":
        return None if rng.random() < 0.3 else valid_value(rng, spec[1], depth)
    return gen.scalar(rng)


def mutate(rng, v):
    """damage a value at one position"""
    if isinstance(v, list) and v and rng.random() < 0.7:
        i = rng.randrange(len(v))
        v = list(v)
        v[i] = mutate(rng, v[i]) if rng.random() < 0.5 else gen.scalar(rng)
        return v
    if isinstance(v, tuple) and v and rng.random() < 0.7:
        i = rng.randrange(len(v))
        l = list(v)
        l[i] = mutate(rng, l[i]) if rng.random() < 0.5 else gen.scalar(rng)
        return tuple(l)
    if isinstance(v, dict) and v and rng.random() < 0.7:
        kk = rng.choice(list(v))
        d = dict(v)
        d[kk] = mutate(rng, d[kk]) if rng.random() < 0.5 else gen.scalar(rng)
        return d
    return gen.value(rng, 1)
