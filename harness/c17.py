"""C17 — forward references and declaration order do not change behaviour."""
import random, warnings, re, os, __future__
import typing
from . import core, dyn, findings

PID = "C17"
dyn.typing = typing
LETTERS = "ABCD"
WRAPS = ["bare", "Optional", "List", "Dict", "Union", "UnionR", "Tuple", "ListOptional", "OptionalList"]
SPELL = ["direct", "inner", "whole", "pipe"]


def wrap_src(w, t):
    return {"bare": t, "Optional": "Optional[%s]" % t, "List": "List[%s]" % t, "Dict": "Dict[str, %s]" % t, "Union": "Union[%s, int]" % t,
            "UnionR": "Union[int, %s]" % t, "Tuple": "Tuple[%s, int]" % t, "ListOptional": "List[Optional[%s]]" % t,
            "OptionalList": "Optional[List[%s]]" % t}[w]


def rand_system(rng):
    """2-3 classes; each has x: int and 1-3 reference fields (target class, wrapper); references may form cycles and self-loops"""
    k = rng.choice([2, 2, 3])
    sysd = []
    for i in range(k):
        refs = []
        for j in range(rng.randint(1, 3)):
            w = rng.choice(WRAPS)
            refs.append(dict(name="r%d" % j, target=rng.randrange(k), wrap=w, cons=(w in ("List", "Dict", "ListOptional") and rng.random() < 0.35)))
        sysd.append(dict(base=rng.choice(["Schema", "Schema", "DataClass"]), refs=refs, xt=rng.choice(["int", "int", "str"])))
    if rng.random() < 0.4:
        sysd[0]["sub_of"] = rng.randrange(k)
    # a parsed function over the classes: a: <class>, b: <wrapped class> = None  ->  <class>
    sysd[0]["fn"] = dict(a=rng.randrange(k), b=rng.randrange(k), bwrap=rng.choice(WRAPS), ret=rng.random() < 0.6,
                         rest=rng.randrange(k) if rng.random() < 0.4 else None, more=rng.randrange(k) if rng.random() < 0.3 else None)
    return sysd


def default_for(w, cons=False):
    c = ", max_length=2" if cons else ""
    return {"List": "Field(default_factory=list%s)" % c, "Dict": "Field(default_factory=dict%s)" % c,
            "ListOptional": "Field(default_factory=list%s)" % c}.get(w, "None")


def unrolled_src(sysd, prefix, depth):
    """the reference: acyclic, direct references only.  Level d of class i refers to level d+1; the last level has no reference fields"""
    out = []
    for d in range(depth, -1, -1):
        for i, c in enumerate(sysd):
            lines = ["class %s%s_%d(%s):" % (prefix, LETTERS[i], d, c["base"]), "    x: %s" % c["xt"]]
            if d < depth:
                for r in c["refs"]:
                    lines.append("    %s: %s = %s" % (r["name"], wrap_src(r["wrap"], "%s%s_%d" % (prefix, LETTERS[r["target"]], d + 1)), default_for(r["wrap"], r.get("cons"))))
            out.append("\n".join(lines))
    if "sub_of" in sysd[0]:
        out.append("class %sD_0(%s%s_0):\n    z: int = 0" % (prefix, prefix, LETTERS[sysd[0]["sub_of"]]))
    fn = sysd[0]["fn"]
    ta, tb = "%s%s_0" % (prefix, LETTERS[fn["a"]]), "%s%s_0" % (prefix, LETTERS[fn["b"]])
    extra = ""
    if fn["rest"] is not None:
        extra += ", *rest: %s%s_0" % (prefix, LETTERS[fn["rest"]])
    if fn["more"] is not None:
        extra += ", **more: %s%s_0" % (prefix, LETTERS[fn["more"]])
    body = "return (a, %s, %s)" % ("rest" if fn["rest"] is not None else "None", "more" if fn["more"] is not None else "None") if extra else "return a"
    ret = ((" -> %s" % ta) if fn["ret"] else "") if not extra else ""
    out.append("@utype.parse\ndef %sfn(a: %s, b: %s = None%s)%s:\n    %s\n" % (prefix, ta, wrap_src(fn["bwrap"], tb), extra, ret, body))
    out.append("@utype.parse\ndef %sgen(a) -> typing.Iterator[%s]:\n    yield a\n" % (prefix, ta))
    return "\n".join(out) + "\n"


def variant_src(sysd, prefix, rng, with_gen=True):
    """one spelling of the system: definition order, spelling of every reference, postponed evaluation, local scope"""
    order = list(range(len(sysd)))
    rng.shuffle(order)
    future = rng.random() < 0.25
    local = rng.random() < 0.25
    defined = set()
    blocks, spells = [], []
    for i in order:
        c = sysd[i]
        lines = ["class %s%s(%s):" % (prefix, LETTERS[i], c["base"]), "    x: %s" % c["xt"]]
        for r in c["refs"]:
            tname = "%s%s" % (prefix, LETTERS[r["target"]])
            can_direct = r["target"] in defined or future
            sp = rng.choice(SPELL)
            if sp == "direct" and not can_direct:
                sp = rng.choice(["inner", "whole"])
            if sp == "pipe" and r["wrap"] not in ("Optional",):
                sp = "inner"
            if sp == "direct":
                ann = wrap_src(r["wrap"], tname)
            elif sp == "inner":
                ann = wrap_src(r["wrap"], "'%s'" % tname) if r["wrap"] != "bare" else "'%s'" % tname
            elif sp == "whole":
                ann = "'%s'" % wrap_src(r["wrap"], tname)
            else:
                ann = "'%s | None'" % tname
            if future and sp != "direct":
                # under postponed evaluation a quoted annotation would be a string inside a string: keep the plain text
                ann = wrap_src(r["wrap"], tname) if sp != "pipe" else "%s | None" % tname
                sp = "future"
            elif future:
                sp = "future"
            spells.append(sp)
            lines.append("    %s: %s = %s" % (r["name"], ann, default_for(r["wrap"], r.get("cons"))))
        defined.add(i)
        blocks.append("\n".join(lines))
        if sysd[0].get("sub_of") == i and rng.random() < 0.5:
            blocks.append("class %sD(%s%s):\n    z: int = 0" % (prefix, prefix, LETTERS[i]))
    if "sub_of" in sysd[0] and not any(b.startswith("class %sD(" % prefix) for b in blocks):
        blocks.append("class %sD(%s%s):\n    z: int = 0" % (prefix, prefix, LETTERS[sysd[0]["sub_of"]]))
    # the function, at a random place among the classes
    fn = sysd[0]["fn"]
    pos = rng.randint(0, len(blocks))
    before = set(o for o in order if any(b.startswith("class %s%s(" % (prefix, LETTERS[o])) for b in blocks[:pos]))

    def spell(target, w):
        tname = "%s%s" % (prefix, LETTERS[target])
        sp = rng.choice(["direct", "inner", "whole"])
        if future:
            spells.append("future")
            return wrap_src(w, tname)
        if sp == "direct" and target not in before:
            sp = rng.choice(["inner", "whole"])
        spells.append("fn-" + sp)
        if sp == "direct":
            return wrap_src(w, tname)
        if sp == "inner":
            return wrap_src(w, "'%s'" % tname)
        return "'%s'" % wrap_src(w, tname)
    extra = ""
    if fn["rest"] is not None:
        extra += ", *rest: %s" % spell(fn["rest"], "bare")
    if fn["more"] is not None:
        extra += ", **more: %s" % spell(fn["more"], "bare")
    fbody = "return (a, %s, %s)" % ("rest" if fn["rest"] is not None else "None", "more" if fn["more"] is not None else "None") if extra else "return a"
    fsrc = "@utype.parse\ndef %sfn(a: %s, b: %s = None%s)%s:\n    %s" % (
        prefix, spell(fn["a"], "bare"), spell(fn["b"], fn["bwrap"]), extra,
        (" -> %s" % spell(fn["a"], "bare")) if (fn["ret"] and not extra) else "", fbody)
    blocks.insert(pos, fsrc)
    gpos = rng.randint(0, len(blocks))
    gbefore = set(o for o in order if any(b.startswith("class %s%s(" % (prefix, LETTERS[o])) for b in blocks[:gpos]))
    before = gbefore
    gt = "%s%s" % (prefix, LETTERS[fn["a"]])
    gsp = rng.choice(["direct", "inner", "whole"])
    if gsp == "direct" and fn["a"] not in gbefore and not future:
        gsp = rng.choice(["inner", "whole"])
    gann = "typing.Iterator[%s]" % gt if (future or gsp == "direct") else ("typing.Iterator['%s']" % gt if gsp == "inner" else "'typing.Iterator[%s]'" % gt)
    if with_gen:
        spells.append("gen-" + ("future" if future else gsp))
        blocks.insert(gpos, "@utype.parse\ndef %sgen(a) -> %s:\n    yield a" % (prefix, gann))
    body = "\n".join(blocks) + "\n"
    if local:
        names = ", ".join(["%s%s" % (prefix, LETTERS[i]) for i in range(len(sysd))] + ([prefix + "D"] if "sub_of" in sysd[0] else []) + [prefix + "fn"] + ([prefix + "gen"] if with_gen else []))
        body = "def %s_make():\n" % prefix + "".join("    " + l + "\n" for l in body.splitlines()) + "    return %s\n" % names
        body += "%s = %s_make()\n" % (names, prefix)
    return dict(src=body, future=future, local=local, order=order, spells=spells)


def declare_src(src, future):
    flags = __future__.annotations.compiler_flag if future else 0
    exec(compile(src, "<dyn-c17>", "exec", flags=flags, dont_inherit=True), dyn.__dict__)


def rand_value(rng, sysd, i, depth, maxd):
    """input for class i with reference nesting up to maxd"""
    c = sysd[i]
    r = rng.random()
    v = {"x": rng.choice([1, "2", 3.0, 4, "q"] if rng.random() < 0.3 else [1, "2", 3.0]) if c["xt"] == "int" else rng.choice(["a", 5])}
    if r < 0.03:
        v.pop("x")
    if depth < maxd:
        for ref in c["refs"]:
            if rng.random() < 0.6:
                inner = lambda: rand_value(rng, sysd, ref["target"], depth + 1, maxd)
                w = ref["wrap"]
                if w in ("bare", "Optional"):
                    v[ref["name"]] = inner() if rng.random() < 0.9 else None
                elif w in ("List", "OptionalList"):
                    v[ref["name"]] = [inner() for _ in range(rng.choice([0, 1, 2, 2, 3]))]
                elif w == "ListOptional":
                    v[ref["name"]] = [inner() if rng.random() < 0.8 else None for _ in range(rng.choice([0, 1, 2, 2, 3]))]
                elif w == "Dict":
                    v[ref["name"]] = {"k%d" % j: inner() for j in range(rng.choice([0, 1, 2, 2, 3]))}
                elif w in ("Union", "UnionR"):
                    v[ref["name"]] = inner() if rng.random() < 0.6 else rng.choice([7, "8", "zz"])
                elif w == "Tuple":
                    v[ref["name"]] = [inner(), rng.choice([1, "2", 3, "q"])]
    if rng.random() < 0.1:
        v["extra"] = 1
    return v


NAME_RE = re.compile(r"Fw\d+[rv]\d*_?([A-D])(?:_\d)?")


def norm_text(s):
    return NAME_RE.sub(lambda m: m.group(1), s)


def canon(v):
    if hasattr(type(v), "__parser__"):
        names = list(type(v).__parser__.fields)
        d = {}
        for n in names:
            try:
                d[n] = canon(getattr(v, n))
            except AttributeError:
                d[n] = "<unset>"
        return ("obj", norm_text(type(v).__name__), tuple(sorted(d.items())))
    if isinstance(v, dict):
        return ("dict", tuple((k, canon(x)) for k, x in v.items()))
    if isinstance(v, (list, tuple)):
        return (type(v).__name__, tuple(canon(x) for x in v))
    return (type(v).__name__, repr(v))


def outcome(cls, data):
    try:
        if not isinstance(cls, type):
            r = cls(*data[0], **data[1])
            return ("ok", canon(list(r) if cls.__name__.endswith("gen") else r))
        return ("ok", canon(cls(**data)))
    except Exception as e:
        return ("err", type(e).__name__, norm_text(str(e)))


def system_oracle(i_seed):
    """one system, its unrolled direct reference and 3 spelled variants; the same inputs, in a per-variant first-use order"""
    warnings.simplefilter("ignore")
    rng = random.Random(i_seed)
    sysd = rand_system(rng)
    tag = "Fw%d" % (i_seed % 10 ** 7)
    DEPTH = 3
    ref_src = unrolled_src(sysd, tag + "r", DEPTH)
    try:
        declare_src(ref_src, False)
    except Exception as e:
        return ("harness", "reference declaration failed: %r\n%s" % (e, ref_src), {})
    inputs = [(i, rand_value(rng, sysd, i, 0, DEPTH - 1)) for i in [rng.randrange(len(sysd)) for _ in range(6)]]
    if "sub_of" in sysd[0]:
        for _ in range(2):
            v = rand_value(rng, sysd, sysd[0]["sub_of"], 0, DEPTH - 1)
            v["z"] = rng.choice([1, "2"])
            inputs.append((3, v))
        rng.shuffle(inputs)
    fn = sysd[0]["fn"]
    for _ in range(2):
        kw = {"a": rand_value(rng, sysd, fn["a"], 0, DEPTH - 1)}
        if rng.random() < 0.6:
            holder = dict(refs=[dict(name="b", target=fn["b"], wrap=fn["bwrap"])], xt="int")
            v = rand_value(rng, sysd + [holder], len(sysd), 0, DEPTH - 1)
            if "b" in v:
                kw["b"] = v["b"]
        args = []
        if fn["rest"] is not None and rng.random() < 0.7:
            args = [kw.pop("a")] + ([kw.pop("b")] if "b" in kw else [None]) + [rand_value(rng, sysd, fn["rest"], 0, DEPTH - 1) for _ in range(rng.randint(0, 2))]
        if fn["more"] is not None and rng.random() < 0.7:
            kw["m1"] = rand_value(rng, sysd, fn["more"], 0, DEPTH - 1)
        inputs.append(("fn", (args, kw)))
    inputs.append(("gen", ([rand_value(rng, sysd, fn["a"], 0, DEPTH - 1)], {})))
    target = lambda pre, i, ref=False: dyn.get(pre + i) if i in ("fn", "gen") else dyn.get(pre + LETTERS[i] + ("_0" if ref else ""))
    expected = [outcome(target(tag + "r", i, True), data) for i, data in inputs]
    stats = {"ok": sum(e[0] == "ok" for e in expected), "err": sum(e[0] == "err" for e in expected)}
    for vn in range(3):
        prefix = "%sv%d_" % (tag, vn)
        var = variant_src(sysd, prefix, rng)
        for s in var["spells"]:
            stats["spell:" + s] = stats.get("spell:" + s, 0) + 1
        stats["local"] = stats.get("local", 0) + int(var["local"])
        try:
            if not var["local"] and rng.random() < 0.4:
                # statement by statement, with first uses made too early in between (their outcome is not judged:
                # a reference may not be bound yet; what is judged is every use made once all is declared)
                stats["early"] = stats.get("early", 0) + 1
                cur = []
                for line in var["src"].splitlines() + ["class "]:
                    if (line.startswith("class ") or line.startswith("@utype.parse")) and cur:
                        declare_src("\n".join(cur) + "\n", var["future"])
                        cur = []
                        for i, data in inputs:
                            nm = prefix + (i if i in ("fn", "gen") else LETTERS[i])
                            if nm in dyn.__dict__ and rng.random() < 0.5:
                                early = outcome(dyn.get(nm), data)
                                stats["early:" + (early[1] if early[0] == "err" else "ok")] = stats.get("early:" + (early[1] if early[0] == "err" else "ok"), 0) + 1
                    cur.append(line)
            else:
                declare_src(var["src"], var["future"])
        except Exception as e:
            return ("declare", "the spelled declaration cannot be declared: %s: %s\n-- spelled --\n%s\n-- direct (unrolled) --\n%s"
                    % (type(e).__name__, norm_text(str(e))[:300], var["src"], ref_src), stats)
        use = list(range(len(inputs)))
        rng.shuffle(use)
        for idx in use:
            i, data = inputs[idx]
            got = outcome(target(prefix, i), data)
            if got != expected[idx]:
                return ("differs", "input %r for class %s: the spelled declaration gives %r, the direct one %r (first-use order %r)\n-- spelled%s%s --\n%s\n-- direct (unrolled) --\n%s"
                        % (data, i if i in ("fn", "gen") else LETTERS[i], got, expected[idx], [inputs[u][0] for u in use], " [future annotations]" if var["future"] else "",
                           " [local scope]" if var["local"] else "", var["src"], ref_src), stats)
    return ("ok", None, stats)


def twin_oracle(i_seed):
    """the same class name declared in two function-local scopes (never bound at module level), self-references spelt with the
    same strings in both (so typing's cache hands both declarations the same ForwardRef objects), different field types: each
    class must parse as its own direct (unrolled) declaration, whatever the order of first use"""
    warnings.simplefilter("ignore")
    rng = random.Random(i_seed)
    tag = "Fw%d" % (i_seed % 10 ** 7)
    DEPTH = 3
    refs = [dict(name="r%d" % j, target=0, wrap=rng.choice(WRAPS)) for j in range(rng.randint(1, 3))]
    spell = [rng.choice(["inner", "whole"]) for _ in refs]
    xts = rng.choice([("int", "str"), ("str", "int"), ("int", "int")])
    cname = "%sv9_A" % tag
    scopes = []
    stats = {"twin": 1}
    for s in (0, 1):
        sysd = [dict(base=rng.choice(["Schema", "DataClass"]), refs=refs, xt=xts[s], fn=dict(a=0, b=0, bwrap="bare", ret=False, rest=None, more=None))]
        ref_src = unrolled_src(sysd, "%sr%d" % (tag, s), DEPTH)
        lines = ["def %s_mk%d():" % (tag, s), "    class %s(%s):" % (cname, sysd[0]["base"]), "        x: %s" % xts[s]]
        if s == 1 and rng.random() < 0.5:
            lines.append("        y: int = 0")
            ref_src = ref_src.replace("    x: %s\n" % xts[s], "    x: %s\n    y: int = 0\n" % xts[s])
        for r, sp in zip(refs, spell):
            ann = (wrap_src(r["wrap"], "'%s'" % cname) if r["wrap"] != "bare" else "'%s'" % cname) if sp == "inner" else "'%s'" % wrap_src(r["wrap"], cname)
            lines.append("        %s: %s = %s" % (r["name"], ann, default_for(r["wrap"])))
        lines += ["    return %s" % cname, "%sS%d = %s_mk%d()" % (tag, s, tag, s)]
        scopes.append(dict(sysd=sysd, ref_src=ref_src, src="\n".join(lines) + "\n"))
    try:
        for sc in scopes:
            declare_src(sc["ref_src"], False)
    except Exception as e:
        return ("harness", "reference declaration failed: %r" % (e,), stats)
    if rng.random() < 0.5:
        # the same name is already bound at module level to another class: a local class's own name still means itself
        stats["decoy"] = 1
        declare_src("class %s(Schema):\n    decoy: int\n" % cname, False)
    try:
        for sc in scopes:
            declare_src(sc["src"], False)
    except Exception as e:
        return ("declare", "the local declarations cannot be declared: %s: %s\n%s" % (type(e).__name__, e, scopes[0]["src"] + scopes[1]["src"]), stats)
    calls = []
    for s in (0, 1):
        for _ in range(3):
            calls.append((s, rand_value(rng, scopes[s]["sysd"], 0, 0, DEPTH - 1)))
    rng.shuffle(calls)
    for s, data in calls:
        exp = outcome(dyn.get("%sr%dA_0" % (tag, s)), data)
        got = outcome(dyn.get("%sS%d" % (tag, s)), data)
        stats[exp[0]] = stats.get(exp[0], 0) + 1
        if got != exp:
            return ("differs", "input %r for the class of scope %d: the local declaration gives %r, the direct one %r (call order %r)\n-- spelled [two local scopes] --\n%s\n-- direct (unrolled) --\n%s"
                    % (data, s, got, exp, [c[0] for c in calls], scopes[0]["src"] + scopes[1]["src"], scopes[s]["ref_src"]), stats)
    return ("ok", None, stats)


# --------------------------------------------------------------------------------------------
# the live parser state against Model/Forward.v
# --------------------------------------------------------------------------------------------
PRIMS = {"int": 1, "str": 2, "None": 0, "NoneType": 0}
APPS = {"AnyOf": 0, "dict": 1, "list": 2, "tuple": 3}


class Cells:
    def __init__(self):
        self.cells = []          # dict(arg=int, src=str(coq sty), obj=ForwardRef or None)
        self.by_id = {}
        self.args = {}

    def arg_idx(self, text):
        return self.args.setdefault(text, len(self.args))

    def add(self, text, names, obj=None):
        if obj is not None and id(obj) in self.by_id:
            return self.by_id[id(obj)]
        self.cells.append(dict(arg=self.arg_idx(text), src=src_of_text(text, names), obj=obj))
        if obj is not None:
            self.by_id[id(obj)] = len(self.cells) - 1
        return len(self.cells) - 1

    def bind(self, idx, obj):
        self.cells[idx]["obj"] = obj
        self.by_id[id(obj)] = idx


def src_of_text(text, names):
    """the meaning of a reference's text as a Coq sty term (names: class name -> index)"""
    import ast

    def go(n):
        if isinstance(n, ast.Name):
            if n.id in names:
                return "SName %d" % names[n.id]
            return "SPrim %d" % PRIMS[n.id]
        if isinstance(n, ast.Constant) and n.value is None:
            return "SPrim 0"
        if isinstance(n, ast.BinOp) and isinstance(n.op, ast.BitOr):
            return "SApp 0 [%s; %s]" % (go(n.left), go(n.right))
        if isinstance(n, ast.Subscript):
            head = n.value.id
            args = n.slice.elts if isinstance(n.slice, ast.Tuple) else [n.slice]
            if head == "Optional":
                return "SApp 0 [%s; SPrim 0]" % go(args[0])
            code = {"Union": 0, "Dict": 1, "List": 2, "Tuple": 3}[head]
            return "SApp %d [%s]" % (code, "; ".join(go(a) for a in args))
        raise ValueError(ast.dump(n))
    return go(ast.parse(text, mode="eval").body)


def raw_tree(a, cells, names, classes, top):
    """a raw annotation (typing object / string / class) as a Coq aty term; `top`: callback giving the cell of a top-level string"""
    import typing
    if isinstance(a, str):
        return "ARef %d" % top(a)
    if isinstance(a, typing.ForwardRef):
        return "ARef %d" % cells.add(a.__forward_arg__, names, a)
    if a in classes:
        return "AClass %d" % classes[a]
    if a is type(None) or a is None:
        return "APrim 0"
    if a in (int, str):
        return "APrim %d" % PRIMS[a.__name__]
    origin = typing.get_origin(a)
    args = typing.get_args(a)
    code = {typing.Union: 0, dict: 1, list: 2, tuple: 3}[origin]
    return "AApp %d [%s]" % (code, "; ".join(raw_tree(x, cells, names, classes, None) for x in args))


def live_tree(t, cells, classes):
    """a field type of a live parser as a Coq aty term"""
    import typing
    from utype.parser.rule import LogicalType, Rule
    if isinstance(t, typing.ForwardRef):
        return "ARef %d" % cells.by_id.get(id(t), 999)
    if t in classes:
        return "AClass %d" % classes[t]
    if t is type(None) or t is None:
        return "APrim 0"
    if t in (int, str):
        return "APrim %d" % PRIMS[t.__name__]
    if isinstance(t, LogicalType):
        if t.combinator:
            return "AApp 0 [%s]" % "; ".join(live_tree(x, cells, classes) for x in t.args)
        if issubclass(t, Rule):
            origin, args = t.__origin__, t.__args__ or ()
            if isinstance(origin, LogicalType) and origin.combinator and not args:
                return live_tree(origin, cells, classes)
            if origin in (dict, list, tuple):
                return "AApp %d [%s]" % (APPS[origin.__name__], "; ".join(live_tree(x, cells, classes) for x in args))
    return "APrim 99"


def state_case(i_seed):
    """declare one variant block by block, resolve the parsers in a random order (some too early), and record after every step
    what the live objects hold.  Returns ("case", coq term, stats) or ("declare", message)"""
    import typing, inspect
    warnings.simplefilter("ignore")
    rng = random.Random(i_seed)
    tag = "Fs%d" % (i_seed % 10 ** 7)
    twin = rng.random() < 0.15
    cells = Cells()
    parsers = []      # dict(parser, classes, top, attidx, names, own)
    steps = []        # (ops text list, observation text)
    stats = {"twin": int(twin)}

    def observe():
        obs = []
        for P in parsers:
            for key, (ref, _) in P["parser"].forward_refs.items():
                if id(ref) not in cells.by_id and key.startswith("$") and key[1:] in P["top"]:
                    cells.bind(P["top"][key[1:]], ref)
        for pid, P in enumerate(parsers):
            par = P["parser"]
            fields = "[%s]" % "; ".join(live_tree(f.type, cells, P["classes"]) for f in par.fields.values())
            pend = []
            for key, (ref, _) in par.forward_refs.items():
                if id(ref) not in cells.by_id and key.startswith("$") and key[1:] in P["top"]:
                    cells.bind(P["top"][key[1:]], ref)
                c = cells.by_id.get(id(ref), 999)
                if key.startswith("$"):
                    pend.append("(KAttr %d, %d)" % (P["attidx"].get(key[1:], 99), c))
                else:
                    text, _, n = key.partition("#")
                    pend.append("(KName %d %d, %d)" % (cells.arg_idx(text), int(n or 0), c))
            obs.append("(%d, %s, [%s])" % (pid, fields, "; ".join(pend)))
        flags = ["Some %s" % ("true" if c["obj"].__forward_evaluated__ else "false") if c["obj"] is not None else "None" for c in cells.cells]
        return "[%s], [%s]" % ("; ".join(obs), "; ".join(flags))

    def env_term(names, env):
        return "[%s]" % "; ".join("(%d, %d)" % (names[n], c) for n, c in env.items())

    def add_parser(obj, is_fn, names, classes, env_decl):
        par = obj.__parser__
        if is_fn:
            raw = {k: q.annotation for k, q in inspect.signature(par.obj).parameters.items() if q.annotation is not q.empty}
        else:
            raw = dict(obj.__dict__.get("__annotations__", {}))
        pid = len(parsers)
        top, attidx, fs = {}, {}, []
        for k, (att, ann) in enumerate(raw.items()):
            attidx[att] = k

            def topcell(text, att=att):
                idx = cells.add(text, names)
                top[att] = idx
                return idx
            fs.append("(%d, %s)" % (k, raw_tree(ann, cells, names, classes, topcell)))
        parsers.append(dict(parser=par, classes=classes, top=top, attidx=attidx, names=names))
        is_local = bool(par.is_local)
        return "ODecl %d %s %s %s [%s]" % (pid, env_term(names, env_decl), "true" if (is_local and not is_fn) else "false",
                                          "true" if is_local else "false", "; ".join(fs))

    def do_resolve(pid, names, env):
        par = parsers[pid]["parser"]
        try:
            par.resolve_forward_refs(ignore_errors=False)
            raised = False
        except NameError:
            raised = True
        stats["raised"] = stats.get("raised", 0) + int(raised)
        return "ORes %d %s %s" % (pid, env_term(names, env), "true" if raised else "false")

    if twin:
        refs = [dict(name="r%d" % j, target=0, wrap=rng.choice(WRAPS)) for j in range(rng.randint(1, 3))]
        spell = [rng.choice(["inner", "whole"]) for _ in refs]
        cname = tag + "N"
        names = {cname: 0}
        for s_ in (0, 1):
            lines = ["def %s_mk%d():" % (tag, s_), "    class %s(Schema):" % cname, "        x: %s" % ["int", "str"][s_]]
            for r, sp in zip(refs, spell):
                ann = (wrap_src(r["wrap"], "'%s'" % cname) if r["wrap"] != "bare" else "'%s'" % cname) if sp == "inner" else "'%s'" % wrap_src(r["wrap"], cname)
                lines.append("        %s: %s = %s" % (r["name"], ann, default_for(r["wrap"])))
            lines += ["    return %s" % cname, "%sS%d = %s_mk%d()" % (tag, s_, tag, s_)]
            try:
                declare_src("\n".join(lines) + "\n", False)
            except Exception as e:
                return ("declare", "cannot declare: %r\n%s" % (e, "\n".join(lines)))
            obj = dyn.get("%sS%d" % (tag, s_))
            op = add_parser(obj, False, names, {obj: s_}, {cname: s_})
            steps.append(([op], observe()))
        order = [0, 1]
        rng.shuffle(order)
        for pid in order + [rng.choice(order)]:
            op = do_resolve(pid, names, {cname: pid})
            steps.append(([op], observe()))
    else:
        sysd = rand_system(rng)
        sysd[0]["fn"].update(rest=None, more=None, ret=False)
        sysd[0].pop("sub_of", None)
        prefix = tag + "v0_"
        var = variant_src(sysd, prefix, rng, with_gen=False)
        stats["local"] = int(var["local"]); stats["future"] = int(var["future"])
        names = {prefix + LETTERS[i]: i for i in range(len(sysd))}
        if var["local"]:
            blocks = [var["src"]]
        else:
            blocks, cur = [], []
            for line in var["src"].splitlines():
                if (line.startswith("class ") or line.startswith("@utype.parse")) and cur:
                    blocks.append("\n".join(cur) + "\n"); cur = []
                cur.append(line)
            blocks.append("\n".join(cur) + "\n")
        defined = {}
        for src in blocks:
            try:
                declare_src(src, var["future"])
            except Exception as e:
                return ("declare", "cannot declare: %r\n%s" % (e, src))
            heads = [l.strip() for l in src.splitlines() if l.strip().startswith("class ") or (l.strip().startswith("def ") and "_make" not in l)]
            ops = []
            new_defined = {}
            for hd in heads:
                nm = hd.split()[1].split("(")[0]
                obj = dyn.get(nm)
                is_fn = nm.endswith("fn")
                classes = {dyn.get(n): i for n, i in names.items() if n in dyn.__dict__}
                if var["local"]:
                    env_decl = {} if is_fn else {nm: names[nm]}
                else:
                    env_decl = dict(defined)
                    if not is_fn:
                        env_decl[nm] = names[nm]
                        defined[nm] = names[nm]
                ops.append(add_parser(obj, is_fn, names, classes, env_decl))
            if var["local"]:
                defined = dict(names)
            for P in parsers:
                P["classes"] = {dyn.get(n): i for n, i in names.items() if n in dyn.__dict__}
            steps.append((ops, observe()))
            if not var["local"] and rng.random() < 0.35:
                pid = rng.randrange(len(parsers))
                op = do_resolve(pid, names, dict(defined))
                steps.append(([op], observe()))
        order = list(range(len(parsers)))
        rng.shuffle(order)
        for pid in order + [rng.choice(order)]:
            op = do_resolve(pid, names, dict(defined))
            steps.append(([op], observe()))
    heap = "[%s]" % "; ".join("mkc %d (%s)" % (c["arg"], c["src"]) for c in cells.cells)
    term = "(%s, [%s])" % (heap, "; ".join("([%s], %s)" % ("; ".join(ops), ob) for ops, ob in steps))
    stats["cells"] = len(cells.cells); stats["steps"] = len(steps)
    return ("case", term, stats)


STATE_PRELUDE = """From Coq Require Import Bool Arith.
Close Scope Z_scope. Close Scope string_scope. Open Scope nat_scope. Open Scope bool_scope.
Definition mkc (a : nat) (s : sty) : cell := {| c_arg := a; c_src := s; c_val := None |}.
Definition env_of (l : list (nat * nat)) : env :=
  fun n => match find (fun p => fst p =? n) l with Some p => Some (snd p) | None => None end.
Fixpoint aty_eqb (a b : aty) : bool :=
  match a, b with
  | APrim x, APrim y => x =? y
  | AClass x, AClass y => x =? y
  | ARef x, ARef y => x =? y
  | AApp k l, AApp k' l' => (k =? k') && (fix go (l l' : list aty) : bool :=
      match l, l' with [], [] => true | x :: r, y :: s => aty_eqb x y && go r s | _, _ => false end) l l'
  | _, _ => false
  end.
Fixpoint list_eqb {A} (e : A -> A -> bool) (x y : list A) : bool :=
  match x, y with [], [] => true | a :: r, b :: s => e a b && list_eqb e r s | _, _ => false end.
Definition pend_eqb (x y : key * nat) : bool := key_eqb (fst x) (fst y) && (snd x =? snd y).
Inductive op := ODecl (pid : nat) (e : list (nat * nat)) (reg_local res_local : bool) (fs : list (nat * aty))
              | ORes (pid : nat) (e : list (nat * nat)) (raised : bool).
Definition pst := list (nat * pstate).
Definition get_p (ps : pst) (pid : nat) : pstate :=
  match find (fun p => fst p =? pid) ps with Some p => snd p | None => {| p_fields := []; p_pending := []; p_local := false |} end.
Definition set_p (ps : pst) (pid : nat) (s : pstate) : pst := (pid, s) :: filter (fun p => negb (fst p =? pid)) ps.
Definition run_op (st : heap * pst * bool) (o : op) : heap * pst * bool :=
  let '(h, ps, ok) := st in
  match o with
  | ODecl pid e rl sl fs => let '(ts, h', p) := reg_fields (env_of e) rl fs h [] in
                            (h', set_p ps pid {| p_fields := ts; p_pending := p; p_local := sl |}, ok)
  | ORes pid e raised => match resolve (env_of e) (get_p ps pid) h with
                         | Done s' h' => (h', set_p ps pid s', ok && negb raised)
                         | Raised s' h' => (h', set_p ps pid s', ok && raised)
                         end
  end.
Fixpoint flags_ok (h : heap) (fl : list (option bool)) : bool :=
  match h, fl with
  | c :: r, Some b :: s => Bool.eqb (match c_val c with Some _ => true | None => false end) b && flags_ok r s
  | _ :: r, None :: s => flags_ok r s
  | _, _ => true
  end.
Definition obs_ok (ps : pst) (o : nat * list aty * list (key * nat)) : bool :=
  let '(pid, fs, pd) := o in
  list_eqb aty_eqb (p_fields (get_p ps pid)) fs && list_eqb pend_eqb (p_pending (get_p ps pid)) pd.
Definition step_t := (list op * list (nat * list aty * list (key * nat)) * list (option bool))%type.
Fixpoint run_steps (st : heap * pst * bool) (l : list step_t) : bool :=
  match l with
  | [] => snd st
  | (ops, obs, fl) :: r =>
      let st' := fold_left run_op ops st in
      let '(h, ps, ok) := st' in
      if ok && forallb (obs_ok ps) obs && flags_ok h fl then run_steps st' r else false
  end.
Definition case_ok (c : heap * list step_t) : bool := run_steps (fst c, [], true) (snd c).
"""


def state_suite(res, seed, n):
    outs = core.pool_map(state_case, [seed * 1000211 + i for i in range(n)], soft=10.0, hard=60.0)
    terms, agg, decl_fail = [], {}, []
    for o in outs:
        if isinstance(o, tuple) and o[0] == "case":
            terms.append(o[1])
            for k, v in o[2].items():
                agg[k] = agg.get(k, 0) + v
        elif isinstance(o, tuple) and o[0] == "declare":
            decl_fail.append(o[1])
    body = STATE_PRELUDE + "Definition cases : list (heap * list step_t) := [\n%s\n].\nGoal True. idtac \"MISMATCH\". exact I. Qed.\nEval vm_compute in (bad_idx case_ok cases).\n" % ";\n".join(terms)
    rc, out = core.coq_eval("c17state_%d" % os.getpid(), ["Validators", "Forward"], body)
    bad = core.parse_nat_list(out, "MISMATCH") if rc == 0 else None
    if bad is None:
        res.broken.append(dict(kind="correspondence", name="forward-state (coqc failed)", detail=out[-1500:]))
        bad = []
    res.add_suite("forward-state", len(terms), len(set(terms)), [terms[0][:400] if terms else ""],
                  "systems of 2-3 classes and a parsed function with string / nested-string / whole-string / postponed references, module "
                  "level (declared statement by statement, with first uses made too early in between) or local to a function, and the "
                  "same class name in two local scopes: after every declaration and every resolve_forward_refs(ignore_errors=False) the "
                  "live parsers' field types, tables of pending references (keys and ForwardRef objects through id()) and the "
                  "evaluated flag of every ForwardRef object are compared with reg_fields / resolve of Model/Forward.v",
                  dict(mismatches=len(bad), declarations_failed=len(decl_fail), **agg))
    if bad:
        res.broken.append(dict(kind="correspondence", name="forward-state",
                               detail="model and implementation differ on %d cases; first: %s" % (len(bad), terms[bad[0]][:3000])))
    for m in decl_fail[:2]:
        res.violations.append(dict(case=repr(dict(kind="declare")), observed=m, what=m))


def main(tier, seed):
    warnings.simplefilter("ignore")
    res = core.Result(PID, tier, seed)
    core.prove(res, PID)
    findings.replay_all(res, PID, {})
    if core.build(["Model/Forward.vo", "Model/Validators.vo"])["ok"]:
        state_suite(res, seed, 500 if tier == "quick" else 8000)
    for name, fn, n, what in (
            ("spelled-vs-direct", system_oracle, 700 if tier == "quick" else 12000,
             "systems of 2-3 mutually referencing data classes (Schema / DataClass, cycles and self-loops) with a parsed function (forward "
             "parameter, *args, **kwargs and return types) and a parsed generator function (forward yield type); 3 spellings each: every "
             "reference direct / 'Name' inside List, Dict, Optional, Union, Tuple / wholly quoted / 'Name | None' / postponed "
             "evaluation, any definition order, module level or local to a function, declared at once or statement by statement "
             "with first uses made too early in between; 9 inputs (valid, invalid, nested to depth 2) in a random first-use order. "
             "The reference is the same system unrolled to depth 3 with direct references only"),
            ("twin-local-scopes", twin_oracle, 300 if tier == "quick" else 5000,
             "one class name declared in two function-local scopes and never bound at module level, self-references spelt with the "
             "same strings (typing's cache hands both the same ForwardRef objects), different field types; calls interleaved")):
        outs = core.pool_map(fn, [seed * 1000003 + i for i in range(n)], soft=10.0, hard=60.0)
        agg, bad = {}, []
        for o in outs:
            if isinstance(o, tuple) and len(o) == 3:
                for k, v in o[2].items():
                    agg[k] = agg.get(k, 0) + v
                if o[0] != "ok":
                    bad.append(o)
        res.add_suite(name, n, n, ["seeded systems"], what + "; outcomes (values with exact types and class identity, or error type "
                      "and message) must be equal", dict(failures=len(bad), **agg))
        for o in bad[:3]:
            res.violations.append(dict(case=repr(dict(kind=o[0], suite=name)), observed=o[1], what=o[1]))
    return core.finish(res, "make -C coq Props/C17.vo && coqc (Print Assumptions audit)", "see suites", search=None,
                       level_note="partial: the theorems are about the resolution state machine (registration, lazy resolution, reset of "
                                  "function-local references) over a heap of ForwardRef cells, tied to the live parser objects by the "
                                  "forward-state suite; that parsing depends on a field type only through what it denotes, and the "
                                  "behaviour on inputs, are decided by the spelled-vs-direct suites on the implementation")


def replay(path):
    import json as _j
    d = _j.loads(open(path).read())
    print(_j.dumps(d, indent=1)[:6000])
    if "case" not in d:
        r = core.build(["Props/%s.vo" % PID])
        return 0 if r["ok"] else 1
    return 1
